#!/bin/bash
# try_all.sh : run the designated checks against every seeded mutant listed in tools/mutant_map.txt (id checks...)
cd /verif
while read id checks; do
  [ -z "$id" ] && continue
  case "$id" in \#*) continue;; esac
  if [ -n "$ONLY" ] && ! echo " $ONLY " | grep -q " $id "; then continue; fi
  echo "== $id ($checks)"
  tools/try_mutant.sh /verif/seeded/$id $checks 2>&1 | tee /verif/seeded/$id/try.log
done < tools/mutant_map.txt

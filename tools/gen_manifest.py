#!/usr/bin/env python3
"""Regenerate MANIFEST.json from the table below (kept valid at all times)."""
import json, os
PY = '/venv/bin/python'
CHECKS = {}   # filled by register()
NA = []


def register(pid, engine, technique, text, note, ref):
    CHECKS[pid] = dict(property_id=pid, quick_cmd=f"{PY} -m mc.check {pid} --tier quick",
                       thorough_cmd=f"{PY} -m mc.check {pid} --tier thorough",
                       evidence_file=f"/verif/evidence/{pid}.json",
                       replay_cmd_template=f"{PY} -m mc.replay {{path}}", engine=engine,
                       level_claimed=dict(category='model_checking', text=text, design_ref=ref),
                       level_note=note, technique=technique)


exec(open(os.path.join(os.path.dirname(__file__), 'manifest_table.py')).read())

props = [json.loads(l)['id'] for l in open('/verif/properties.jsonl')]
m = {
    'version': 1,
    'setup_cmd': f"cd /verif && {PY} -m compileall -q mc && {PY} -m mc.selftest",
    'hooks': {'guard': 'PYVOLUTIONARY_VERIF', 'enable': 'no source hooks: every seam is a module attribute replaced by the harness at run time (numpy.random draw functions, stdlib random, concurrent.futures executors)',
              'baseline_off_cmd': 'cd /repo && /venv/bin/python -m pytest -ra -q -p no:cacheprovider --timeout=900 --continue-on-collection-errors',
              'source_commits': [], 'add_only': True},
    'engines': ENGINES,
    'checks': [CHECKS[p] for p in props if p in CHECKS],
    'not_applicable': [e for e in NA] + [dict(property_id=p, reason='check not built yet in this session (work in progress)') for p in props if p not in CHECKS and p not in [e['property_id'] for e in NA]],
    'notes': 'All checks are bounded-exhaustive explorations (model checking) of the real code; see DESIGN.md. Known findings: /verif/known_findings.json.',
}
json.dump(m, open('/verif/MANIFEST.json', 'w'), indent=1)
import jsonschema
jsonschema.validate(m, json.load(open('/root/.vp/MANIFEST.schema.json')))
print('MANIFEST ok:', len(m['checks']), 'checks,', len(m['not_applicable']), 'not claimed')

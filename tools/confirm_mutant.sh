#!/bin/bash
# confirm_mutant.sh <dir with patch.diff and demo.py> <id>
# Independent confirmation in a scratch worktree: demo fails with the patch, passes without, repo test-suite passes with it.
set -u
SRC=$1; ID=$2
WT=/tmp/confirm/$ID
mkdir -p /tmp/confirm
git -C /repo worktree remove --force $WT 2>/dev/null
git -C /repo worktree add --detach $WT HEAD -q || exit 3
OUT=$SRC/confirm.json
cd $WT
clean_rc=0; PYTHONPATH=$WT timeout 600 /venv/bin/python $SRC/demo.py > $SRC/demo_clean.log 2>&1 || clean_rc=$?
if ! git apply $SRC/patch.diff; then echo "{\"id\":\"$ID\",\"error\":\"patch does not apply\"}" > $OUT; git -C /repo worktree remove --force $WT; exit 3; fi
mut_rc=0; PYTHONPATH=$WT timeout 600 /venv/bin/python $SRC/demo.py > $SRC/demo_mutant.log 2>&1 || mut_rc=$?
PYTHONPATH=$WT /venv/bin/python -m pytest -q -p no:cacheprovider --timeout=900 -n 4 > $SRC/suite_mutant.log 2>&1
suite_rc=$?
summary=$(tail -1 $SRC/suite_mutant.log | tr -d '"')
echo "{\"id\":\"$ID\",\"demo_clean_rc\":$clean_rc,\"demo_mutant_rc\":$mut_rc,\"suite_rc\":$suite_rc,\"suite\":\"$summary\",\"base\":\"$(git -C /repo rev-parse --short HEAD)\"}" > $OUT
cd /; git -C /repo worktree remove --force $WT
cat $OUT

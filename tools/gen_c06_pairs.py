#!/usr/bin/env python
"""Build mc/c06_pairs.json on the reference tree: (optimizer, integer encoding) pairs with at least one failing
execution over seeds 0..9 are 'unprotected' (they fail or are flaky today); all other pairs are protected."""
import json, sys
sys.path.insert(0, '/verif')
from mc import explore, registry, tasks
from mc.sweep import _scn
pairs = {}
for seed in range(10):
    jobs = [(_scn(n, p, mm, c, seed=seed), {'d': 0}) for n in registry.NAMES for p in tasks.INTEGER if p != 'perm4c'
            for mm in ('min', 'max') for c in (1, 2, 3)]
    j = explore.run_jobs(jobs, mon_names=['m_c06']).to_json()
    for k, (n, nf) in j['pairs'].items():
        e = pairs.setdefault(k, [0, 0]); e[0] += n; e[1] += nf
explore.close_pool()
unprot = {k: f"{v[1]}/{v[0]} executions failed (seeds 0..9)" for k, v in sorted(pairs.items()) if v[1] > 0}
json.dump({'unprotected': unprot, 'protected': sorted(k for k, v in pairs.items() if v[1] == 0)},
          open('/verif/mc/c06_pairs.json', 'w'), indent=1)
print(len(pairs), 'pairs', len(unprot), 'unprotected')
for k, v in unprot.items(): print(k, v)

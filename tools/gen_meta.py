#!/usr/bin/env python3
"""Write seeded/<id>/meta.json from notes.md, confirm.json and try.log (what was run, what caught it)."""
import json, os, re, sys
ROOT = '/verif/seeded'
NEEDS = json.load(open('/verif/tools/mutant_needs.json')) if os.path.exists('/verif/tools/mutant_needs.json') else {}
rows = []
for d in sorted(os.listdir(ROOT)):
    p = os.path.join(ROOT, d)
    if not os.path.isdir(p) or not os.path.exists(os.path.join(p, 'patch.diff')):
        continue
    conf = json.load(open(os.path.join(p, 'confirm.json'))) if os.path.exists(os.path.join(p, 'confirm.json')) else None
    tried = {}
    tl = os.path.join(p, 'try.log')
    if os.path.exists(tl):
        for line in open(tl):
            m = re.match(r'^(C\d+) rc=(\d+) (\d+) violation lines; ?(.*)$', line.strip())
            if m:
                tried[m.group(1)] = {'exit': int(m.group(2)), 'violation_lines': int(m.group(3)), 'what': m.group(4)[:300]}
    files = sorted(set(re.findall(r'^\+\+\+ b/(\S+)', open(os.path.join(p, 'patch.diff')).read(), re.M)))
    meta = {
        'id': d, 'breaks_property': d.split('_')[0], 'files_touched': files,
        'needs_to_manifest': NEEDS.get(d, 'see notes.md'),
        'origin': 'independent sub-agent given only the property text and a scratch worktree',
        'confirmed_by_me': conf,
        'confirmation_commands': 'tools/confirm_mutant.sh: scratch worktree of /repo HEAD; demo.py on the clean tree (expect 0), '
                                 'git apply patch.diff, demo.py (expect non-zero), full pytest suite with the patch (expect 285 passed)',
        'checks_run_against_it': tried,
        'caught_by': sorted(k for k, v in tried.items() if v['exit'] == 1),
    }
    json.dump(meta, open(os.path.join(p, 'meta.json'), 'w'), indent=1)
    rows.append((d, meta['caught_by'], conf and conf.get('suite', '')[:12], conf and conf.get('demo_mutant_rc')))
for r in rows:
    print(*r)

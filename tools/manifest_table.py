ENGINES = [
    dict(name='E1', path='/verif/mc/explore.py', kind_free_text='deviation-bounded stateless explorer over environment answers (RNG draws, entropy, pool schedules) on the real optimize()',
         serves_properties=['C01', 'C02', 'C03', 'C04', 'C05', 'C06', 'C07', 'C08', 'C09', 'C10', 'C11', 'C12', 'C15', 'C17', 'C18']),
    dict(name='E2', path='/verif/mc/pools.py', kind_free_text='model thread/process pools (fork-faithful) whose scheduling decisions are choice points; conformance runs against the real executors',
         serves_properties=['C03', 'C10', 'C11', 'C16', 'C19', 'C20']),
    dict(name='E3', path='/verif/mc/props', kind_free_text='bounded-exhaustive enumeration of inputs of pure components against reference models / specification predicates',
         serves_properties=['C03', 'C06', 'C10', 'C13', 'C14', 'C15', 'C16', 'C18', 'C19', 'C20']),
    dict(name='E4', path='/verif/mc/scriptopt.py', kind_free_text='scripted optimizer driving the real optimize()/stop rule/helpers/HyperTuner/Multitask with chosen data (explicit-state search over rate histories)',
         serves_properties=['C03', 'C04', 'C16', 'C19', 'C20']),
]
SW = ('E1', 'deviation-bounded exhaustive exploration of RNG/schedule answers on the real optimize()')
register('C01', SW[0], SW[1] + '; membership monitor on every reported agent',
         'No execution with <= d deviating environment answers (d=1 quick; d=2 windowed thorough) over the task/config/mode alphabets reports a position outside the declared search space.',
         'alphabets of DESIGN 2.5; interior-quantile answer menu; atomic model pools', '3 C01')
register('C02', SW[0], SW[1] + '; cost/fitness re-evaluation monitor',
         'Same executions as C01; every reported cost re-evaluated with the un-instrumented objective, fitness with the documented formula.',
         'deterministic objectives quad/plateau/multi; 1e-12 relative tolerance', '3 C02')
register('C05', SW[0], SW[1] + '; instrumented objective checks every call',
         'Every objective call of every explored execution (incl. model-pool workers) checked for membership.',
         'as C01', '3 C05')
register('C09', SW[0], SW[1] + '; before/after dumps of config and task',
         'config.model_dump() and a deep task dump compared before/after every explored execution, including failing ones.',
         'as C01', '3 C09')
register('C16', 'E3', 'bounded-exhaustive enumeration of populations vs specification predicates; all completion orders of the model pools',
         'All populations up to size 5 (6 thorough) over a 5-value cost alphabet with ties and infinities x n x direction through every selection helper; all population pairs through greedy/trim helpers, pooled variants under every completion order.',
         'cost alphabet; unique position tags; NaN excluded', '3 C16')
register('C17', SW[0], SW[1] + '; monotone-best monitor on the structurally elitist set',
         'For the 69 structurally elitist optimizers (under their structural preconditions) no explored execution loses its best cost between consecutive generations.',
         'elitist set is a source-justified subset (mc/elitist.py); NaN-cost executions skipped (C05 reports them)', '3 C17')
register('C03', 'E1+E4', SW[1] + '; plus exhaustive enumeration of final generations through the real optimize() of a scripted optimizer',
         'best_solution checked against the last generation on every explored execution, and on every final generation of size <= 5 (6 thorough) over a 5-value cost alphabet with ties in every order and both directions.',
         'as C01; cost alphabet {-2,-1,0,1,3}', '3 C03')
register('C04', 'E4+E1', 'explicit-state search over (cycle, rate history) of the stop rule with the real optimize() on a scripted optimizer vs an independent reference; observational monitor on the shared sweep',
         'Every rate history up to length 4 (5 thorough) over a dyadic alphabet x max_cycles x fitness_error x early_stopping x population shapes: number of cycles, generations, rates and each rate value agree with the rule as stated.',
         'dyadic rate alphabet; first rate change is r_1 - 0; fresh instance per run', '3 C04')
register('C06', 'E1+E3', SW[1] + '; integer-coded tasks per (optimizer, encoding) pair against a committed table; finite menu of invalid calls x all optimizers',
         'Valid side: every explored execution on continuous tasks must return a result (failures keyed by optimizer/exception/function/message); protected integer pairs must not fail wholesale. Invalid side: every invalid call of the menu raises ValueError before any cycle.',
         'alphabets of DESIGN 2.5; pairs protected = zero failures over seeds 0..9 on the reference tree', '3 C06')
register('C10', 'E1+E3', SW[1] + '; exhaustive enumeration of regrouping / regeneration helper inputs',
         'Every generation of every explored execution is non-empty and <= population_size, == for all but the three variable-size optimizers, over population multipliers, odd sizes, cycle budgets, modes and worker counts 1,2,3,4,16.',
         'exactness not claimed under one-parameter deviations of algorithm parameters; Henry Gas exempt at non-multiple sizes', '3 C10')
register('C12', 'E1', 'pairs of executions (max f / min -f) under the same choice list, deviation-bounded exhaustive',
         'For the 83 optimizers that do not read fitness: generation by generation identical positions and exactly negated costs, d=0 over 7 task prototypes x 2 seeds and d<=1 over the initialisation choice points (thorough: all points).',
         'Ant Lion exempt (reads Agent.fitness); fitness_error=None', '3 C12')
register('C15', 'E1+E3', SW[1] + ' with per-cycle deep snapshots; exhaustive hand-built histories for the utilities',
         'evolution[k] equals an independent deep snapshot taken after cycle k on every explored execution; utilities agree with a direct ranking for all ranks and iteration subsets on hand-built histories and on every d=0 result.',
         'reporting contract = (position, cost, fitness); results without NaN costs', '3 C15')
register('C08', 'E1', 'enumeration of call histories (event sequences, |H| <= 2) with a differential oracle: probe run on the used instance vs on a fresh instance under the same choice list',
         'For every optimizer and every history over 7 earlier-run events (same/other stop criterion, other task, other direction, other weights): equal results, equal canonical instance state at return, and the per-run monitors hold on the reused instance.',
         'reconfiguration between runs through set_config_parameters; state compared at return only', '3 C08')
register('C13', 'E3', 'bounded-exhaustive enumeration of variable definitions x candidate values against the domain laws; randomize() under every RNG answer',
         'All bound pairs over a 6-value alphabet, choice lists up to length 3 (4) over 6 heterogeneous values, binary sizes -1..3, permutation item lists up to length 4 x all 5^n value vectors: membership, identity on members, idempotence, decode consistency, rejection of invalid definitions.',
         'NaN excluded; alphabets in mc/props/c13.py', '3 C13')
register('C14', 'E3', 'bounded-exhaustive enumeration of variable lists (length 1..3 over 11 prototypes) against a reference model built by explicit loops',
         '1463 tasks: dimension, bounds, random solutions under every RNG answer, correction of every vector over a 5-value per-coordinate alphabet, decoding of every corrected vector.',
         'full product for dimension <= 4 (5 thorough), one-coordinate-at-a-time above (reported as capped)', '3 C14')
register('C19', 'E3+E4', 'exhaustive ParameterGrid laws; ALL score tables through the real HyperTuner.execute/resolve on a scripted optimizer with the model process pool under every trial execution order; conformance on the real pool',
         'Every grid point evaluated exactly once per trial with its own parameters; best_parameters optimal for the mean of the logged scores in the task direction; best_score equals it; resolve() uses them.',
         'score alphabet {-1,0,1,2}; G <= 3 (4) points, T <= 2 (3) trials', '3 C19')
register('C20', 'E3+E4', 'exhaustive enumeration of (n, m, modes shape, mode values, n_trials) through the real Multitask on scripted optimizers with the model pools',
         'Exactly n_trials runs per (algorithm, task) pair with the designated mode for all four documented shapes; unknown modes rejected at construction; table shapes; exported directory tree.',
         'n, m <= 3; 3x3 per-pair shape restricted to <= 2 non-serial entries in the quick tier', '3 C20')
register('C07', 'E1', 'enumeration of ambient generator histories x same/fresh process x seeds for every optimizer, with entropy-escape tripwires armed in every explored execution',
         'For every optimizer x task prototype x integer seed the runs after each ambient history and in a fresh subprocess give identical results; no call into stdlib random / unseeded generators / os.urandom occurs in any explored execution.',
         'serial mode; seeds {0, 1, 42, 2^32-1}; ambient alphabet of 5 histories', '3 C07')
register('C11', 'E2+E1', 'exhaustive schedules of pooled calls: atomic model pools under all completion orders x worker assignments x report orders, interleaved real threads under all interleavings up to a pre-emption bound (RNG-point and source-line granularity); conformance against the real executors',
         'Pooled agent generation and greedy selection keep every guarantee (count, feasibility, truthful cost, exactly-once evaluation, pairwise distinct initial agents) on every schedule; whole runs in thread/process mode hold the serial invariants under schedule deviations.',
         'n <= 4 pooled calls in the dedicated harness; no switch inside a source line; fork-faithful process model validated by conformance runs', '3 C11')
register('C18', 'E3+E1', 'bounded-exhaustive enumeration of parameter dictionaries (<= 1 field deviating over a field alphabet) and pairs of executions for the two construction paths under the same choice list',
         'Bare construction, refusal to optimise, agreement of set_config_parameters with the config class, and identical runs for Cls(Config(**d)) vs Cls()+set_config_parameters(d).',
         'run equivalence only with fixture population/cycles; wrong-typed values need only agree between the two paths', '3 C18')

ENGINES = [
    dict(name='E1', path='/verif/mc/explore.py', kind_free_text='deviation-bounded stateless explorer over environment answers (RNG draws, entropy, pool schedules) on the real optimize()',
         serves_properties=['C01', 'C02', 'C03', 'C04', 'C05', 'C06', 'C07', 'C08', 'C09', 'C10', 'C11', 'C12', 'C15', 'C17', 'C18']),
    dict(name='E2', path='/verif/mc/pools.py', kind_free_text='model thread/process pools (fork-faithful) whose scheduling decisions are choice points; conformance runs against the real executors',
         serves_properties=['C03', 'C10', 'C11', 'C16', 'C19', 'C20']),
    dict(name='E3', path='/verif/mc/props', kind_free_text='bounded-exhaustive enumeration of inputs of pure components against reference models / specification predicates',
         serves_properties=['C03', 'C06', 'C10', 'C13', 'C14', 'C15', 'C16', 'C18', 'C19', 'C20']),
    dict(name='E4', path='/verif/mc/scriptopt.py', kind_free_text='scripted optimizer driving the real optimize()/stop rule/helpers/HyperTuner/Multitask with chosen data (explicit-state search over rate histories)',
         serves_properties=['C03', 'C04', 'C16', 'C19', 'C20']),
]
SW = ('E1', 'deviation-bounded exhaustive exploration of RNG/schedule answers on the real optimize()')
register('C01', SW[0], SW[1] + '; membership monitor on every reported agent',
         'No execution with <= d deviating environment answers (d=1 quick; d=2 windowed thorough) over the task/config/mode alphabets reports a position outside the declared search space.',
         'alphabets of DESIGN 2.5; interior-quantile answer menu; atomic model pools', '3 C01')
register('C02', SW[0], SW[1] + '; cost/fitness re-evaluation monitor',
         'Same executions as C01; every reported cost re-evaluated with the un-instrumented objective, fitness with the documented formula.',
         'deterministic objectives quad/plateau/multi; 1e-12 relative tolerance', '3 C02')
register('C05', SW[0], SW[1] + '; instrumented objective checks every call',
         'Every objective call of every explored execution (incl. model-pool workers) checked for membership.',
         'as C01', '3 C05')
register('C09', SW[0], SW[1] + '; before/after dumps of config and task',
         'config.model_dump() and a deep task dump compared before/after every explored execution, including failing ones.',
         'as C01', '3 C09')
register('C16', 'E3', 'bounded-exhaustive enumeration of populations vs specification predicates; all completion orders of the model pools',
         'All populations up to size 5 (6 thorough) over a 5-value cost alphabet with ties and infinities x n x direction through every selection helper; all population pairs through greedy/trim helpers, pooled variants under every completion order.',
         'cost alphabet; unique position tags; NaN excluded', '3 C16')
register('C17', SW[0], SW[1] + '; monotone-best monitor on the structurally elitist set',
         'For the 69 structurally elitist optimizers (under their structural preconditions) no explored execution loses its best cost between consecutive generations.',
         'elitist set is a source-justified subset (mc/elitist.py); NaN-cost executions skipped (C05 reports them)', '3 C17')

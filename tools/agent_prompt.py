#!/usr/bin/env python3
"""Print the prompt given to an independent sub-agent for one property (property text + scratch worktree only)."""
import json, sys
pid = sys.argv[1]
variant = sys.argv[2] if len(sys.argv) > 2 else ''
wt = f"/tmp/wt/{pid}{variant}"
p = next(json.loads(l) for l in open('/verif/properties.jsonl') if json.loads(l)['id'] == pid)
EXTRA = ''
if variant == 'b':
    EXTRA = (" IMPORTANT for this round: both changes must be made inside the source file of ONE SPECIFIC optimizer each (a file under pyvolutionary/<algorithm_name>/, two different algorithms), preferably in a rarely executed branch, a boundary case of that algorithm's own arithmetic, or its handling of its private state - NOT in abstract.py, helpers.py, models.py, hypertuner.py or multitask.py. Avoid the simplest ideas (deleting a call to the correction/clipping step, flipping the comparison of a sort).")
if variant == 'c':
    EXTRA = (" IMPORTANT for this round: prefer changes that only manifest in mode='thread' or mode='process' (a particular completion order of pooled evaluations, worker count, state shared between workers, what is or is not copied into a worker process), or only after a particular SEQUENCE of calls on the same objects (reuse of optimizer / task / configuration / tuner objects).")
if variant == 'd':
    EXTRA = (" IMPORTANT for this round: both changes must need an unusual but VALID INPUT to manifest, not a call sequence: e.g. a particular variable mix (binary next to continuous, a multi-variable of size 1, a permutation, discrete choices of heterogeneous types), extreme but finite bounds (offsets of 1e6 with width 1, widths of 1e-3, one bound exactly 0), dimension 1, multi-objective weights containing a zero, tie-heavy or constant objectives, objectives taking both signs, an integer seed at the edge of the accepted range, population sizes that are not multiples of 2/3/4/5. Ordinary symmetric-box continuous tasks must keep working exactly as before.")
print(f"""You are helping to evaluate a verification effort for the open-source Python library `pyvolutionary` (about 80 nature-inspired metaheuristic optimizers sharing a common population/selection loop in pyvolutionary/abstract.py, helpers in helpers.py, pydantic variable/task models in models.py, HyperTuner and Multitask utilities). Your job is to play the role of a developer who introduces a realistic, subtle bug.

Your private scratch copy of the repository is the git worktree `{wt}` (work ONLY there; never touch /repo or /verif, and do not read /verif). Python is `/venv/bin/python`; run things as `cd {wt} && PYTHONPATH={wt} /venv/bin/python ...` so that the worktree copy of the package is imported (check `pyvolutionary.__file__` once). There is no network.

The semantic property that should hold for the library:

  Title: {p['title']}
  Statement: {p['statement']}
  Quantified over: {p['quantifier']['text']}
  Relevant files: {', '.join(p['anchors']['files'])}

TASK: produce TWO different, independent changes to the library source (files under `pyvolutionary/` only — not tests) that each BREAK this property, while
  (a) the package still imports and runs, and
  (b) the existing test suite still passes entirely with the change applied: `cd {wt} && PYTHONPATH={wt} /venv/bin/python -m pytest -q -p no:cacheprovider --timeout=900` (about 285 tests, ~5 minutes, SEQUENTIAL - the official way; the test modules share objects, so results under `-n` can differ: you may use `-n 4` or a relevant subset while iterating, but run the whole suite sequentially once per final change and report the pass count).
Prefer changes that need something SPECIFIC to manifest — an unusual but valid input (asymmetric bounds, a maximisation task, a particular variable mix, population size not divisible by something), a rarely taken random branch, a particular completion order of pooled evaluations, a multi-step sequence of calls, a particular configuration value, or two cooperating sites that each look fine alone — NOT changes that ordinary use would expose at once or that make every run crash. They should look like plausible refactoring slips or "optimisations" a reviewer could miss (a few lines each). The two changes should be in different places / of different nature.{EXTRA}

For each change k in {{1,2}} create the directory `{wt}/out/{pid}{variant}_k/` containing:
  - `patch.diff`: the output of `git diff` for the library change alone (must apply with `git apply` to a clean checkout of this worktree's HEAD),
  - `demo.py`: a small self-contained program (it may loop over seeds/inputs, may take up to ~60 s) that exits with status 0 on the unmodified library and with a non-zero status (assertion failure) when the change is applied, demonstrating the property violation through the public API,
  - `notes.md`: 5-10 lines: what the change is, why it breaks the property, what is needed for it to manifest, and the exact commands you ran with their results (full-suite pass count with the change; demo result with and without the change).
Verify both directions yourself (demo passes on clean tree, fails with patch; test suite passes with patch). When finished, restore the worktree source to clean (`git -C {wt} checkout -- pyvolutionary`; never use `git stash` (the stash is shared by all worktrees of the repository and other agents are working in sibling worktrees)), leaving only the `out/` directory, and reply with a short summary of the two changes (files/lines touched, what manifests them). If you cannot find a second change that keeps the suite green, deliver one and say so.""")

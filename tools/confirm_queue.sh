#!/bin/bash
# confirm every seeded mutant that has no confirm.json yet, two at a time
cd /
ls -d /verif/seeded/*/ | while read d; do
  d=${d%/}; id=$(basename $d)
  [ -f $d/confirm.json ] && continue
  echo $id
done | xargs -P 2 -I{} /verif/tools/confirm_mutant.sh /verif/seeded/{} {}

#!/bin/bash
# run every check of the given tier; prints one summary line per check
TIER=${1:-quick}
cd /verif
for i in $(seq -w 1 20); do
  p=C$i
  s=$(date +%s)
  /venv/bin/python -m mc.check $p --tier $TIER > /tmp/runall_$p.log 2>&1
  rc=$?
  e=$(date +%s)
  echo "$p rc=$rc $((e-s))s viol=$(grep -c '^VIOLATION' /tmp/runall_$p.log) known=$(grep -c '^KNOWN' /tmp/runall_$p.log) $(grep -c HARNESS /tmp/runall_$p.log)"
done

#!/usr/bin/env python3
"""Regenerate /verif/known_findings.json from the reviewed table below (never written at check run time)."""
import json

K = []


def known(prop, key, what, witness):
    K.append({'property': prop, 'key': key, 'what': what, 'witness': witness})


# ---- C02 ----------------------------------------------------------------------------------------------------------
known('C02', 'C02|ImperialistCompetitiveOptimization|cost-mismatch',
      'Imperialist Competitive reports the total cost of the EMPIRE (emperor + colonies) for the emperor position '
      '(imperialist_competitive/classes.py Transformer.transform); a design-level choice of the author, not repaired',
      'ImperialistCompetitiveOptimization on any task, generation 0 agent 0')
# ---- C05 ----------------------------------------------------------------------------------------------------------
known('C05', 'C05|FoxOptimization|continuous-nan',
      'Fox: at cycle 1 a = 2*(1-1/1) = 0 and __mint is still inf, so best + N(0,1)*(inf*0) is NaN; np.clip passes NaN on '
      'to the objective (fox_optimization.py evolve, else-branch)', 'FoxOptimization, cont3z, seed 0, no deviation')
known('C05', 'C05|AfricanVultureOptimization|continuous-nan',
      'African Vulture: 0/0 when best_x1 = position**2 = 0, i.e. for a coordinate sitting on a zero bound '
      '(african_vulture_optimization.py)', 'AfricanVultureOptimization, cont3z (bounds [0,10] x [-5,0]), seed 0')
known('C05', "C05|FicksLawOptimization|continuous-nan",
      "Fick's Law: np.exp(-jj/tf) overflows to inf in steady_state_operator, then inf*0 = NaN",
      'FicksLawOptimization, scales4 max, 3 cycles, seed 0')
# ---- C06 (continuous tasks, strict) -------------------------------------------------------------------------------
known('C06', 'C06|AquilaOptimization|ZeroDivisionError|optimization_step|float division by zero',
      'Aquila divides by (1 - max_cycles)**2: max_cycles = 1 is an accepted configuration and always crashes',
      'AquilaOptimization, max_cycles=1, any task')
known('C06', 'C06|InvasiveWeedOptimization|ZeroDivisionError|optimization_step|division by zero',
      'Invasive Weed divides by (max_cycles - 1): max_cycles = 1 always crashes',
      'InvasiveWeedOptimization, max_cycles=1, any task')
known('C06', 'C06|CoralReefOptimization|ValueError|multi_point_cross|Cannot take a larger sample than populat',
      'Coral Reef multi_point_cross draws 2 distinct cut points: crashes on 1-dimensional tasks',
      'CoralReefOptimization, cont1')
known('C06', 'C06|EarthwormsOptimization|ValueError|optimization_step|high <=',
      'Earthworms draws randint(0, dim-1): crashes on 1-dimensional tasks', 'EarthwormsOptimization, cont1')
known('C06', 'C06|ImperialistCompetitiveOptimization|ValueError|revolution|a cannot be empty unless no samples are ',
      'Imperialist Competitive revolution exchanges with an empty candidate list on 1-dimensional tasks',
      'ImperialistCompetitiveOptimization, cont1')
known('C06', 'C06|ForestOptimizationAlgorithm|ValueError|global_seeding|Cannot take a larger sample than populat',
      'Forest global_seeding samples global_seeding_changes (3) distinct dimensions: crashes when the task has fewer '
      'dimensions (1-D and 2-D tasks) or global_seeding_changes is raised above the dimension',
      'ForestOptimizationAlgorithm, cont2s / far2 / mo2 / cont1')
known('C06', 'C06|WaterCycleOptimization|ValueError|after_initialization|a cannot be empty unless no samples are ',
      'Water Cycle: the rounded stream shares can exceed the number of streams, the last choice() is from an empty set; '
      'seed dependent', 'WaterCycleOptimization, cont2s max seed 1')
known('C06', 'C06|BrainStormOptimization|IndexError|evolve|list index out of range',
      'Brain Storm crashes when population_size is not a multiple of m_clusters (agents outside the clusters are '
      'dropped, then indexed); also m_clusters=6 with population 20', 'BrainStormOptimization, population_size=21')
known('C06', 'C06|ImprovedBrainStormOptimization|IndexError|evolve|list index out of range',
      'Improved Brain Storm: same defect as Brain Storm', 'ImprovedBrainStormOptimization, population_size=21')
known('C06', 'C06|GeneticAlgorithmOptimization|IndexError|crossover|list index out of range',
      'Genetic Algorithm crossover pairs parents two by two: odd population sizes crash',
      'GeneticAlgorithmOptimization, population_size=21')
known('C06', 'C06|WaterCycleOptimization|ValueError|after_initialization|Cannot take a larger sample than populat',
      'Water Cycle: same rounding defect of the stream shares, seen as an over-sized choice() without replacement',
      'WaterCycleOptimization, plateau objective / odd population, seed 0')
known('C06', 'C06|BeeColonyOptimization|ValueError|roulette_wheel_indexes|probabilities contain NaN',
      'Bee Colony: onlooker probabilities are costs / sum(costs); a colony whose costs sum to 0 (plateau objective with '
      'exact zeros) gives NaN probabilities', 'BeeColonyOptimization, cont3z, plateau objective, seed 0')
known('C06', 'C06|FicksLawOptimization|ZeroDivisionError|steady_state_operator|float division by zero',
      "Fick's Law steady_state_operator divides by a cost difference that is 0 on tie-heavy objectives",
      'FicksLawOptimization, plateau objective, seed 0')
known('C06', 'C06|CoyotesOptimization|ValueError|evolve_coyote|Cannot take a larger sample than populat',
      'Coyotes: num_coyotes=2 is accepted by the validator but evolve_coyote samples 2 other pack members',
      'CoyotesOptimization, num_coyotes=2')
known('C06', 'C06|GainingSharingKnowledgeOptimization|ValueError|senior_gaining_sharing_knowledge|a cannot be empty unless no samples are ',
      'Gaining-Sharing Knowledge: p=0.05 is accepted but makes the best/worst groups empty at population 20',
      'GainingSharingKnowledgeOptimization, p=0.05')
known('C06', "C06|WildebeestHerdOptimization|TypeError|population_pressure|can t multiply sequence by non-int of ty",
      'Wildebeest population_pressure multiplies a Python list by a float (eta * list): TypeError whenever that branch '
      'is reached (delta_c=1.5 reaches it at once)', 'WildebeestHerdOptimization, delta_c=1.5')
known('C05', 'C05|KrillHerdOptimization|continuous-nan',
      'Krill Herd normalises by (worst - best) cost: 0/0 on tie-heavy objectives', 'KrillHerdOptimization, cont2s max, plateau objective, seed 0')
known('C05', 'C05|VirusColonySearchOptimization|continuous-nan',
      'Virus Colony Search with lamda=0.05 (accepted): int(lamda * population) = 1 best virus, weights 0/0',
      'VirusColonySearchOptimization, lamda=0.05')
known('C14', 'C14|get_bounds-raises|permutation-next-to-other-variables',
      'Task.get_bounds builds a ragged array when a PermutationVariable (one coordinate whose bounds are lists) stands '
      'next to any other variable: numpy raises "inhomogeneous shape"; no optimizer can run on such a task',
      "Task(variables=[ContinuousVariable, PermutationVariable]).get_bounds()")
known('C06', 'C06|OptimizationAbstract|TypeError|__should_stop__|bad operand type for unary - NoneType',
      'EarlyStopping(patience=None) is accepted by its validator (the field is Optional) but the stop rule slices '
      'self._error_diffs[-patience:]', 'any optimizer, early_stopping={patience: None, min_delta: 0.5}')
known('C06', 'C06|OptimizationAbstract|TypeError|__should_stop__|< not supported between instances of flo',
      'EarlyStopping(min_delta=None) is accepted by its validator but the stop rule compares abs(diff) < min_delta',
      'any optimizer, early_stopping={patience: 2, min_delta: None}')
known('C06', 'C06|BrainStormOptimization|IndexError|optimization_step|list index out of range',
      'Brain Storm, same defect as the evolve() key: population_size not a multiple of m_clusters (or m_clusters=6 at '
      'population 20) leaves fewer agents than indexed; which line raises depends on the seed',
      'BrainStormOptimization, population_size=21, seed 4')
known('C06', 'C06|ImprovedBrainStormOptimization|IndexError|optimization_step|list index out of range',
      'Improved Brain Storm: same defect as Brain Storm', 'ImprovedBrainStormOptimization, population_size=21, seed 7')
known('C06', 'C06|DwarfMongooseOptimization|ValueError|roulette_wheel_indexes|probabilities contain NaN',
      'Dwarf Mongoose builds roulette probabilities from exp(-cost/mean cost): a NaN appears when the mean is 0 or the '
      'exponent overflows; seed dependent', 'DwarfMongooseOptimization, mo2 3 cycles seed 5; cont2s seed 14')
known('C06', 'C06|ImperialistCompetitiveOptimization|IndexError|random_selection|list index out of range',
      'Imperialist Competitive: empire probabilities exp(-alpha*cost/max cost) become NaN when the maximal empire cost '
      'is 0 (tie-heavy objective with exact zeros); random_selection then finds no index',
      'ImperialistCompetitiveOptimization, cont3z, plateau objective, seed 5')
known('C01', 'C01|FoxOptimization|continuous-nan',
      'Fox: the NaN candidate of the C05 finding is REPORTED when the objective maps NaN to an ordinary cost (a step / count '
      'objective: comparisons with NaN are False, so the cost is 0 and the candidate wins the greedy selection)',
      'FoxOptimization, cont3z min, step objective, seed 0')
known('C05', 'C05|BacterialForagingOptimization|continuous-nan',
      'Bacterial Foraging normalises the tumble direction by its norm and the health by cost differences: 0/0 when every '
      'bacterium has exactly the same cost (constant objective)', 'BacterialForagingOptimization, cont3z, constant-zero objective')
known('C06', 'C06|BiogeographyBasedOptimization|ValueError|roulette_wheel_indexes|probabilities contain NaN',
      'Biogeography-Based: roulette probabilities 0/0 when all habitats have the same cost (constant objective)',
      'BiogeographyBasedOptimization, cont3z, constant-zero objective')
known('C06', 'C06|WaterCycleOptimization|ValueError|after_initialization|Negative dimensions are not allowed',
      'Water Cycle: stream shares are |cost| / sum(cost) - NaN for an all-zero population, the rounded shares are garbage',
      'WaterCycleOptimization, cont3z, constant-zero objective')
known('C05', 'C05|FishSchoolSearchOptimization|continuous-nan',
      'Fish School Search with w_scale=0.0 (accepted by the validator): weights 0/0', 'FishSchoolSearchOptimization, w_scale=0.0')
known('C01', 'C01|FishSchoolSearchOptimization|continuous-nan',
      'Fish School Search with w_scale=0.0: the NaN positions are kept and reported', 'FishSchoolSearchOptimization, w_scale=0.0')
known('C06', 'C06|AntColonyOptimization|ValueError|roulette_wheel_indexes|probabilities contain NaN',
      'Ant Colony with intent_factor=0.0 (accepted): archive weights 0/0', 'AntColonyOptimization, intent_factor=0.0')
known('C06', 'C06|MonarchButterflyOptimization|IndexError|optimization_step|list index out of range',
      'Monarch Butterfly with partition=0.0 (accepted): land 1 is empty and then indexed', 'MonarchButterflyOptimization, partition=0.0')
known('C01', 'C01|KrillHerdOptimization|continuous-nan',
      'Krill Herd: the 0/0 of the C05 finding (ties) is reported when the objective maps NaN to an ordinary cost (step objective)',
      'KrillHerdOptimization, cont3z, step objective, seed 1')
known('C06', 'C06|ForestOptimizationAlgorithm|ValueError|local_seeding|Cannot take a larger sample than populat',
      'Forest local_seeding samples local_seeding_changes distinct dimensions: any accepted value above the task dimension crashes',
      'ForestOptimizationAlgorithm, local_seeding_changes=11 on a 3-D task')
known('C06', 'C06|SpottedHyenaOptimization|ValueError|evolve|Cannot take a larger sample than populat',
      'Spotted Hyena samples n_trials distinct hyenas: n_trials >= population_size is accepted and crashes',
      'SpottedHyenaOptimization, n_trials=20, population 20')

FIXED = [
    "fixed: property=C07 0d03759 Task.seed typed float: every seeded run raised TypeError in np.random.seed",
    "fixed: property=C07 5a5a45b get_partner_index drew from the unseeded stdlib generator (Bee Colony not reproducible)",
    "fixed: property=C08 dc27b71 cycle counter / rate history only initialised in __init__: 2nd run on an instance ran 1 cycle and returned the first run's rates prepended",
    "fixed: property=C06 113aac0 maximisation + multi-objective: -1 * [a, b] == [] so every such run raised ValueError",
    "fixed: property=C09 279d41a Bee Colony halved the caller's config.population_size on every run",
    "fixed: property=C09 a4458d3 Firefly Swarm decayed the caller's config.alpha every cycle",
    "fixed: property=C08 a640e42 Fox kept __mint from the previous run",
    "fixed: property=C08 a73580e Success-History Intelligent kept decrementing __a across runs",
    "fixed: property=C08 52fd9dc Water Cycle kept decaying __ecc across runs",
    "fixed: property=C08 9cd151f Imperialist Competitive appended new empires to the previous run's (IndexError on another task)",
    "fixed: property=C18 7682002 CoralReefOptimization() without configuration raised AttributeError in the constructor and cached gamma there",
    "fixed: property=C02 1ba53d5 PermutationVariable.correct (argsort) returned the inverse permutation and was applied twice: reported cost was f(argsort(position)) (also C13: not identity on members, not idempotent)",
    "fixed: property=C13 c177f77 ContinuousVariable.correct(np.float32(2)) with bounds [0.1, 0.3] returned 0.30000001192: outside the bounds",
    "fixed: property=C14 beef7f6 DiscreteMultiVariable.get_bounds returned a list of pairs that Task.get_bounds unpacked as (lb, ub): ValueError for 1 or >= 3 children, silently wrong for 2",
    "fixed: property=C14 dbc14ef transform_solution unwrapped size-1 slices of multi-variables and then indexed the scalar",
    "fixed: property=C15 cbd2167 agent_trend / agent_position ranked ascending whatever the direction: for maximisation results best_agent_trend was the worst agent",
    "fixed: property=C19 26ea65a HyperTuner ranked (rank_mean, rank_std) descending for maximisation and then took the minimum: the worst grid point was returned",
    "fixed: property=C20 1afd7a0 Multitask(modes=<one per algorithm>) raised TypeError (deepcopy of a generator)",
    "fixed: property=C20 472e8e3 Multitask(modes=<one per pair>) was indexed as if nested: modes read character-wise, ValueError",
    "fixed: property=C20 3e0cf95 Multitask.export_results nested every algorithm directory inside the previous one",
    "fixed: property=C11 99d5b51 process-mode workers were forked with the parent's generator state and replayed one stream: 20 initial agents, 8-12 distinct",
    "fixed: property=C06 0f54b99 Water Cycle: a river that was assigned no stream made best_agent([]) raise ValueError (seed dependent, about 1 run in 500 on the test fixture task)",
    "fixed: property=C01 5131d68 Imperialist Competitive revolution swapped coordinates of the colony's own position in place: out-of-range reals and non-integer discrete coordinates were reported with a stale cost",
]

if __name__ == '__main__':
    # integer-encoding pairs that fail wholesale today (C06): one known finding per pair
    pairs = json.load(open('/verif/mc/c06_pairs.json'))['unprotected']
    for k, v in pairs.items():
        opt, proto = k.split('|')
        known('C06', f"C06|{opt}|fails-on-encoding|{proto}",
              f"{opt} does not run on the {proto} encoding on the reference tree ({v})", f"{opt} on {proto}, d = 0")
    json.dump({'known': K, 'fixed': FIXED}, open('/verif/known_findings.json', 'w'), indent=1)
    print(len(K), 'known findings,', len(FIXED), 'fixed entries')

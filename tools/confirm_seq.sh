#!/bin/bash
# confirm_seq.sh <id> : the repository's own baseline command (sequential, as in /root/.vp/BASELINE.json) with the patch
ID=$1; WT=/tmp/confirm/seq_$ID
git -C /repo worktree remove --force $WT 2>/dev/null
git -C /repo worktree add --detach $WT HEAD -q || exit 3
cd $WT && git apply /verif/seeded/$ID/patch.diff || exit 3
PYTHONPATH=$WT /venv/bin/python -m pytest -ra -q -p no:cacheprovider --timeout=900 --continue-on-collection-errors > /verif/seeded/$ID/suite_sequential.log 2>&1
rc=$?
echo "{\"id\":\"$ID\",\"sequential_suite_rc\":$rc,\"summary\":\"$(tail -1 /verif/seeded/$ID/suite_sequential.log | tr -d '"')\"}" > /verif/seeded/$ID/confirm_seq.json
cat /verif/seeded/$ID/confirm_seq.json
cd /; git -C /repo worktree remove --force $WT

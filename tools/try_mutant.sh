#!/bin/bash
# try_mutant.sh <seeded dir> <check ids...> : apply the patch to /repo, run the given checks (quick), undo the patch.
# prints one line per check: <id> <exit code> ; full logs under <seeded dir>/check_<id>.log
set -u
D=$1; shift
cd /repo || exit 3
if [ -n "$(git status --porcelain -- pyvolutionary)" ]; then echo "/repo is dirty"; exit 3; fi
git apply $D/patch.diff || { echo "patch does not apply"; exit 3; }
trap 'git -C /repo checkout -- . ' EXIT
cd /verif
TIER=${TIER:-quick}
for c in "$@"; do
  /venv/bin/python -m mc.check $c --tier $TIER > $D/check_$c.log 2>&1
  rc=$?
  echo "$c rc=$rc $(grep -c '^VIOLATION' $D/check_$c.log) violation lines; $(grep '^  what' $D/check_$c.log | head -3 | tr '\n' ';')"
done

#!/usr/bin/env python
"""Run the shared quick sweep for a range of seeds and list finding keys that are not in known_findings.json."""
import json, sys
sys.path.insert(0, '/verif')
from mc import sweep, explore
from mc.report import load_known
known = load_known()
a, b = int(sys.argv[1]), int(sys.argv[2])
tier = sys.argv[3] if len(sys.argv) > 3 else 'quick'
unknown = {}
for s in range(a, b):
    j = sweep.get_shared(tier, s)
    for f in j['findings']:
        if f['key'] not in known:
            unknown.setdefault(f['key'], []).append((s, f['count'], f['scn'].get('proto'), f['scn'].get('obj'), f['scn']['over'], f['dev'], f['detail'][:140]))
    print('seed', s, 'done', j['execs'], 'executions', flush=True)
explore.close_pool()
for k, v in sorted(unknown.items()):
    print(k)
    for e in v[:3]:
        print('    ', e)

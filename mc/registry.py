"""Optimizer registry and the frozen copy of the documented-scale configurations (tests/algorithms fixtures)."""
import inspect
import json
import os

import pyvolutionary as pv
from pyvolutionary.abstract import OptimizationAbstract

HERE = os.path.dirname(os.path.abspath(__file__))
CFG = json.load(open(os.path.join(HERE, 'configs.json')))

OPTS = {n: o for n, o in vars(pv).items()
        if inspect.isclass(o) and issubclass(o, OptimizationAbstract) and o is not OptimizationAbstract}
NAMES = sorted(OPTS)


def config_class(name):
    return getattr(pv, name + 'Config')


def base_params(name, **over):
    d = dict(CFG[name + 'Config'])
    d.update(over)
    return d


def make_config(name, **over):
    return config_class(name)(**base_params(name, **over))


def make(name, **over):
    return OPTS[name](make_config(name, **over))


def doc_population(name):
    return CFG[name + 'Config']['population_size']


# optimizers whose population is variable by design (C10 statement)
VARIABLE_SIZE = {'BeeColonyOptimization', 'ForestOptimizationAlgorithm', 'ImperialistCompetitiveOptimization'}
# optimizers that consult Agent.fitness / task direction in their update rule (C12 statement: Ant Lion)
FITNESS_READERS = {'AntLionOptimization'}

"""Optimizer registry and the frozen copy of the documented-scale configurations (tests/algorithms fixtures)."""
import inspect
import json
import os

import pyvolutionary as pv
from pyvolutionary.abstract import OptimizationAbstract

HERE = os.path.dirname(os.path.abspath(__file__))
CFG = json.load(open(os.path.join(HERE, 'configs.json')))

OPTS = {n: o for n, o in vars(pv).items()
        if inspect.isclass(o) and issubclass(o, OptimizationAbstract) and o is not OptimizationAbstract}
NAMES = sorted(OPTS)


def config_class(name):
    return getattr(pv, name + 'Config')


def base_params(name, **over):
    d = dict(CFG[name + 'Config'])
    d.update(over)
    return d


def make_config(name, **over):
    return config_class(name)(**base_params(name, **over))


def make(name, **over):
    return OPTS[name](make_config(name, **over))


def doc_population(name):
    return CFG[name + 'Config']['population_size']


# optimizers whose population is variable by design (C10 statement)
VARIABLE_SIZE = {'BeeColonyOptimization', 'ForestOptimizationAlgorithm', 'ImperialistCompetitiveOptimization'}
# optimizers that cut the population into equal clusters: at sizes that are not a multiple of the cluster count
# (outside C10's 1x/1.5x/2x/3x alphabet) they keep only the clustered agents
REGROUPING = {'HenryGasSolubilityOptimization'}
# optimizers that consult Agent.fitness / task direction in their update rule (C12 statement: Ant Lion)
FITNESS_READERS = {'AntLionOptimization'}


BASE_FIELDS = ('population_size', 'fitness_error', 'max_cycles', 'early_stopping')


def _neighbours(v):
    if isinstance(v, bool):
        return [not v]
    if isinstance(v, int):
        return [v - 1, v + 1]
    if isinstance(v, float):
        return [v / 2, v * 1.5]
    if isinstance(v, (list, tuple)) and v and all(isinstance(e, (int, float)) and not isinstance(e, bool) for e in v):
        out = []
        for i, e in enumerate(v):
            for n in _neighbours(e):
                w = list(v)
                w[i] = n
                out.append(w)
        if len(v) == 2:
            out.append([v[1], v[0]])
        return out
    return []


def param_boundary_values(name):
    """float parameters set to the boundary values 0.0 and 1.0 where the config validator accepts them"""
    cls = config_class(name)
    base = base_params(name)
    out = []
    for f, v in base.items():
        if f in BASE_FIELDS or not isinstance(v, float):
            continue
        for nv in (0.0, 1.0):
            if nv == v:
                continue
            d = dict(base)
            d[f] = nv
            try:
                cls(**d)
            except Exception:
                continue
            out.append((f, nv))
    return out


def param_int_boundaries(name):
    """integer parameters set to small values and to values around the population size, where accepted"""
    cls = config_class(name)
    base = base_params(name)
    pop = base['population_size']
    out = []
    for f, v in base.items():
        if f in BASE_FIELDS or isinstance(v, bool) or not isinstance(v, int):
            continue
        for nv in sorted({1, 2, 3, pop - 1, pop, pop + 1, 2 * pop}):
            if nv == v or abs(nv - v) == 1:
                continue
            d = dict(base)
            d[f] = nv
            try:
                cls(**d)
            except Exception:
                continue
            out.append((f, nv))
    return out


def param_deviations(name):
    """one-parameter deviations of every algorithm parameter to its neighbouring values, kept only if the config
    validator accepts them -> list of (field, value)"""
    cls = config_class(name)
    base = base_params(name)
    out = []
    for f, v in base.items():
        if f in BASE_FIELDS:
            continue
        for n in _neighbours(v):
            d = dict(base)
            d[f] = n
            try:
                cls(**d)
            except Exception:
                continue
            out.append((f, n))
    return out

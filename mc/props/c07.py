"""C07 - a seeded run is reproducible.  The RNG seam does NOT script answers here: the library seeds the real generators
from task.seed.  Enumerated: ambient histories of the process's generators before the run x same / fresh process x
seeds x task prototypes x all optimizers.  Plus the escape monitor (armed in every E1 execution of the shared sweep)."""
from .. import explore, registry, sweep
from ..report import seed as env_seed
from ..runners import AMBIENT
from ._shared import use_shared

SEEDS = [0, 1, 42, 2 ** 32 - 1]


def jobs(tier):
    out = []
    for n in registry.NAMES:
        if tier == 'quick':
            seeds = [(42, AMBIENT), (0, AMBIENT[:2]), (2 ** 32 - 1, AMBIENT[:2])]
            protos = ['cont3z', 'mixed3', 'perm4', 'perm4s']
        else:
            seeds = [(s, AMBIENT) for s in SEEDS]
            protos = ['cont3z', 'mixed3', 'perm4', 'perm4s', 'mo2', 'scales4']
        out.append(({'opt': n, 'runner': 'c07', 'protos': protos, 'seeds': seeds, 'proto': 'cont3z'}, {'d': 0}))
    return out


def run(rep, tier):
    def compute():
        return explore.run_jobs(jobs(tier), mon_names=[]).to_json()
    j = sweep.memo_get('c07', tier, 0, compute)
    rep.add_acc_findings(j)
    rep.add_acc_coverage('seeded-pairs', j,
                         f"for every optimizer x task prototype x integer seed: the run after each ambient history "
                         f"{AMBIENT} and the run in a fresh subprocess (random PYTHONHASHSEED) must all give the same "
                         "result; stdlib random / unseeded generators / os.urandom are tripwired", memo_hit=j.get('memo_hit'))
    run_multitask_trials(rep, tier)
    # the escape monitor ran on every execution of the shared sweep as well
    js = use_shared(rep, tier)
    rep.assume("serial mode (as the property states)", "numpy-valid integer seeds",
               "distinct results per optimizer = distinct (prototype, seed) outcomes, reported as distinct_end_results")


def run_multitask_trials(rep, tier):
    """seeded serial trials launched concurrently by Multitask must each reproduce the direct seeded run, whatever pool
    Multitask uses: should the trials run on threads of one process, every interleaving of their random draws with at
    most one pre-emption is explored (interleaved scheduler); with the process pool there is a single schedule"""
    import contextlib
    import io
    import concurrent.futures as cf
    from pyvolutionary import Multitask
    from .. import harness, interleave, pools, seams, tasks
    from ..seams import CTL
    n_sched = 0
    finds = {}
    outcomes = set()
    seams.install()
    try:
        for optname in ('GreyWolfOptimization', 'ParticleSwarmOptimization'):
            over = {'max_cycles': 1, 'fitness_error': None, 'population_size': 8}

            def direct():
                CTL.reset({}, 3)
                o = registry.make(optname, **over)
                t = tasks.make_task('cont3z', seed=42)
                with contextlib.redirect_stdout(io.StringIO()):
                    return harness.canon_result(o.optimize(t))
            want = direct()

            def body():
                CTL.reset({}, 3)
                o = registry.make(optname, **over)
                t = tasks.make_task('cont3z', seed=42)
                mt = Multitask((o,), (t,), modes=('serial',))
                with contextlib.redirect_stdout(io.StringIO()):
                    mt.execute(n_trials=2)
                return [harness.canon_result(cell['solution']) for cell in mt._df2[0].iloc[:, 0]]

            def on_exec(res, sc, choices):
                nonlocal n_sched
                n_sched += 1
                outcomes.add(harness.h8(res))
                for k, r in enumerate(res):
                    if r != want:
                        finds.setdefault(f"C07|{optname}|seeded-trial-launched-by-Multitask-differs-from-the-direct-run",
                                         (f"trial {k + 1} under schedule {choices[:20]} differs from optimize() with the same seed",
                                          {'part': 'multitask'}))
            # the process pool (what the library uses today) is modelled atomically; a thread pool is interleaved
            saved = cf.ProcessPoolExecutor
            cf.ProcessPoolExecutor = pools.ModelProcessPool
            try:
                interleave.explore(body, 1, on_execution=on_exec, max_executions=400 if tier == 'quick' else 4000)
            finally:
                cf.ProcessPoolExecutor = saved
                CTL.active = False
    finally:
        seams.uninstall()
    for key, (detail, case) in finds.items():
        rep.finding(key, detail, {'kind': 'e3', 'module': 'c07', 'case': case})
    rep.part('multitask-trials', n_sched, len(outcomes), states=len(outcomes), transitions=n_sched, validated=n_sched,
             samples=[{'optimizers': ['GreyWolf', 'ParticleSwarm'], 'task_seed': 42, 'n_trials': 2, 'schedules': n_sched}],
             rule="Multitask.execute(n_trials=2) on a seeded task in serial mode: each trial must equal the direct seeded run; "
                  "if the trials share a process (threads) all interleavings of their draws with <= 1 pre-emption are explored")


def replay(case):
    from ..report import Reporter
    rep = Reporter('C07', 'quick')
    run_multitask_trials(rep, 'quick')
    return rep.findings

"""C07 - a seeded run is reproducible.  The RNG seam does NOT script answers here: the library seeds the real generators
from task.seed.  Enumerated: ambient histories of the process's generators before the run x same / fresh process x
seeds x task prototypes x all optimizers.  Plus the escape monitor (armed in every E1 execution of the shared sweep)."""
from .. import explore, registry, sweep
from ..report import seed as env_seed
from ..runners import AMBIENT
from ._shared import use_shared

SEEDS = [0, 1, 42, 2 ** 32 - 1]


def jobs(tier):
    out = []
    for n in registry.NAMES:
        if tier == 'quick':
            seeds = [(42, AMBIENT), (0, AMBIENT[:2]), (2 ** 32 - 1, AMBIENT[:2])]
            protos = ['cont3z', 'mixed3', 'perm4', 'perm4s']
        else:
            seeds = [(s, AMBIENT) for s in SEEDS]
            protos = ['cont3z', 'mixed3', 'perm4', 'perm4s', 'mo2', 'scales4']
        out.append(({'opt': n, 'runner': 'c07', 'protos': protos, 'seeds': seeds, 'proto': 'cont3z'}, {'d': 0}))
    return out


def run(rep, tier):
    def compute():
        return explore.run_jobs(jobs(tier), mon_names=[]).to_json()
    j = sweep.memo_get('c07', tier, 0, compute)
    rep.add_acc_findings(j)
    rep.add_acc_coverage('seeded-pairs', j,
                         f"for every optimizer x task prototype x integer seed: the run after each ambient history "
                         f"{AMBIENT} and the run in a fresh subprocess (random PYTHONHASHSEED) must all give the same "
                         "result; stdlib random / unseeded generators / os.urandom are tripwired", memo_hit=j.get('memo_hit'))
    # the escape monitor ran on every execution of the shared sweep as well
    js = use_shared(rep, tier)
    rep.assume("serial mode (as the property states)", "numpy-valid integer seeds",
               "distinct results per optimizer = distinct (prototype, seed) outcomes, reported as distinct_end_results")

"""C16 - selection helpers return exactly the best / worst members asked for.
E3: bounded-exhaustive enumeration of populations over a small cost alphabet, specification predicates as oracle."""
import itertools
import math

from pyvolutionary import helpers
from pyvolutionary.enums import TaskType, ModeSolver

from .. import pools, scriptopt, seams
from ..scriptopt import ScriptOpt, ScriptConfig, mk_agent, task0

INF = float('inf')
ALPHA = [-INF, -1.0, 0.0, 2.0, INF]       # repetition inside a population gives the ties


def better(a, b, tt):
    return a < b if tt == TaskType.MIN else a > b


def tags(lst):
    return [a.position[0] for a in lst]


def snapshot(pop):
    return [(id(a), a.position[0], a.cost, a.fitness) for a in pop]


def check_selection(pop, n, tt, fail):
    """all selection helpers on one (population, n, direction)"""
    size = len(pop)
    before = snapshot(pop)
    costs = {a.position[0]: a.cost for a in pop}

    def members(R, what):
        t = tags(R)
        if any(x not in costs for x in t) or len(set(t)) != len(t):
            fail(what, 'not distinct members of the population', t)
            return False
        if any(costs[x] != a.cost for x, a in zip(t, R)):
            fail(what, 'agent altered', t)
            return False
        return True

    def ordered_best_first(R, what):
        for x, y in zip(R, R[1:]):
            if better(y.cost, x.cost, tt):
                fail(what, 'not ordered best-first / worst-last', [a.cost for a in R])
                return

    def check_best(R, what, k):
        if len(R) != k:
            return fail(what, f'returned {len(R)} agents, asked {k}', tags(R))
        if not members(R, what):
            return
        ordered_best_first(R, what)
        rt = set(tags(R))
        for a in pop:
            if a.position[0] not in rt and any(better(a.cost, r.cost, tt) for r in R):
                return fail(what, 'an omitted agent is strictly better than a returned one', [a.cost, [r.cost for r in R]])

    def check_worst(R, what, k):
        if len(R) != k:
            return fail(what, f'returned {len(R)} agents, asked {k}', tags(R))
        if not members(R, what):
            return
        ordered_best_first(R, what)
        rt = set(tags(R))
        for a in pop:
            if a.position[0] not in rt and any(better(r.cost, a.cost, tt) for r in R):
                return fail(what, 'an omitted agent is strictly worse than a returned one', [a.cost, [r.cost for r in R]])

    B = helpers.best_agents(pop, n, tt)
    check_best(B, 'best_agents', n)
    W = helpers.worst_agents(pop, n, tt)
    check_worst(W, 'worst_agents', n)
    bi = helpers.best_agents_indexes(pop, n, tt)
    if [pop[i].cost for i in bi] != [a.cost for a in B] or len(set(bi)) != len(bi):
        fail('best_agents_indexes', 'designates other costs than best_agents', [bi, [a.cost for a in B]])
    wi = helpers.worst_agents_indexes(pop, n, tt)
    if [pop[i].cost for i in wi] != [a.cost for a in W] or len(set(wi)) != len(wi):
        fail('worst_agents_indexes', 'designates other costs than worst_agents', [wi, [a.cost for a in W]])
    sb, sw = helpers.special_agents(pop, n_best=n, n_worst=n, task_type=tt)
    check_best(sb, 'special_agents.best', n)
    check_worst(sw, 'special_agents.worst', n)
    if n == 1:
        check_best([helpers.best_agent(pop, tt)], 'best_agent', 1)
        check_worst([helpers.worst_agent(pop, tt)], 'worst_agent', 1)
        if pop[helpers.best_agent_index(pop, tt)].cost != B[0].cost:
            fail('best_agent_index', 'designates another cost than best_agent', None)
        if pop[helpers.worst_agent_index(pop, tt)].cost != W[-1].cost:
            fail('worst_agent_index', 'designates another cost than worst_agent', None)
    if n == size:
        S = helpers.sort_by_cost(pop, tt)
        check_best(S, 'sort_by_cost', size)
        si = helpers.sort_by_cost_indexes(pop, tt)
        if sorted(si) != list(range(size)) or [pop[i].cost for i in si] != [a.cost for a in S]:
            fail('sort_by_cost_indexes', 'is not the sorting permutation', si)
    if tt == TaskType.MIN:
        T = helpers.sort_and_trim(pop, n)
        check_best(T, 'sort_and_trim', n)
    if snapshot(pop) != before:
        fail('any', "the caller's list was mutated or reordered", None)
    return 8


def run_selection(rep, max_size):
    n_cases = 0
    distinct = set()
    sample = None
    for size in range(1, max_size + 1):
        for costs in itertools.product(ALPHA, repeat=size):
            pop = [mk_agent(i, c) for i, c in enumerate(costs)]
            for tt in (TaskType.MIN, TaskType.MAX):
                for n in range(0, size + 1):
                    def fail(what, why, obs, costs=costs, n=n, tt=tt):
                        rep.finding(f"C16|{what}|{why}", f"population costs {list(costs)}, n={n}, direction {tt}: {obs}",
                                    {'kind': 'e3', 'module': 'c16', 'case': {'part': 'selection', 'costs': list(costs),
                                                                             'n': n, 'tt': str(tt)}})
                    check_selection(pop, n, tt, fail)
                    n_cases += 1
            distinct.add(tuple(sorted(costs)))
            if sample is None and size == 3:
                sample = {'population_costs': list(costs), 'n': '0..3', 'directions': ['min', 'max']}
    rep.part('selection-helpers', n_cases, len(distinct), states=n_cases, transitions=n_cases * 14, samples=[sample],
             rule=f"all populations of size 1..{max_size} over costs {ALPHA} x n in 0..size x both directions through "
                  "best/worst_agents(_indexes), best/worst_agent(_index), special_agents, sort_by_cost(_indexes), "
                  "sort_and_trim; distinct = distinct cost multisets", max_population=max_size)


# ---------------------------------------------------------------------------------------------------------------
GALPHA = [0.0, 1.0, 2.0]


TASK_DIRECTION = ['min']


def _opt(pop, population_size, mode='serial', workers=4):
    o = ScriptOpt(ScriptConfig(population_size=population_size))
    o._task = task0(minmax=TASK_DIRECTION[0])     # internal costs are compared ascending whatever the direction
    o._mode = ModeSolver(mode)
    o._workers = workers
    o._population = list(pop)
    return o


def run_greedy(rep, max_cur, max_new, max_pool):
    n_cases, distinct = 0, set()

    def rfail(what, why, case, obs):
        rep.finding(f"C16|{what}|{why}", f"{case}: {obs}",
                    {'kind': 'e3', 'module': 'c16', 'case': dict(case, part=what)})

    # _greedy_select_agent on all cost pairs
    for c1 in ALPHA:
        for c2 in ALPHA:
            o = _opt([], 1)
            inc, ch = mk_agent('inc', c1), mk_agent('ch', c2)
            r = o._greedy_select_agent(inc, ch)
            want = 'ch' if c2 < c1 else 'inc'
            if r.position[0] != want or r.cost != (c2 if want == 'ch' else c1):
                rfail('_greedy_select_agent', 'incumbent must stay unless the challenger is strictly cheaper',
                      {'incumbent': c1, 'challenger': c2}, r.position[0])
            if (inc.position, inc.cost, ch.position, ch.cost) != (['inc'], c1, ['ch'], c2):
                rfail('_greedy_select_agent', 'arguments mutated', {'incumbent': c1, 'challenger': c2}, None)
            n_cases += 1
    # trim helpers and serial greedy population on all pairs of populations
    sample = None
    for ncur in range(1, max_cur + 1):
        for ccur in itertools.product(GALPHA, repeat=ncur):
            for nnew in range(0, max_new + 1):
                for cnew in itertools.product(GALPHA, repeat=nnew):
                    case = {'current': list(ccur), 'new': list(cnew)}
                    cur = [mk_agent(('c', i), c) for i, c in enumerate(ccur)]
                    new = [mk_agent(('n', i), c) for i, c in enumerate(cnew)]
                    allc = {a.position[0]: a.cost for a in cur + new}
                    # extend and trim: population_size = ncur
                    o = _opt(cur, ncur)
                    b_new = snapshot(new)
                    o._extend_and_trim_population(new)
                    got = [a.cost for a in o._population]
                    # an empty extension is documented as a no-op (nothing to extend, nothing to trim)
                    want = sorted(list(ccur) + list(cnew))[:ncur] if nnew else list(ccur)
                    tg = tags(o._population)
                    if got != want or len(set(tg)) != len(tg) or any(allc.get(t) != c for t, c in zip(tg, got)):
                        rfail('_extend_and_trim_population', 'must keep the population_size cheapest of old+new, ascending',
                              case, got)
                    if snapshot(new) != b_new:
                        rfail('_extend_and_trim_population', "caller's list mutated", case, None)
                    # replace and trim
                    if nnew >= 1:
                        o = _opt(cur, ncur)
                        o._replace_and_trim_population(new)
                        got = [a.cost for a in o._population]
                        want = sorted(cnew)[:ncur]
                        if got != want or any(t[0] != 'n' for t in tags(o._population)):
                            rfail('_replace_and_trim_population', 'must keep the cheapest of the new population, ascending',
                                  case, got)
                        if snapshot(new) != b_new:
                            rfail('_replace_and_trim_population', "caller's list mutated", case, None)
                    # greedy population (same sizes): element-wise on the cost-sorted populations
                    if nnew == ncur:
                        o = _opt(cur, ncur)
                        o._greedy_select_population(new)
                        sc, sn = sorted(ccur), sorted(cnew)
                        want = [n_ if n_ < c_ else c_ for c_, n_ in zip(sc, sn)]
                        wsrc = ['n' if n_ < c_ else 'c' for c_, n_ in zip(sc, sn)]
                        got = [a.cost for a in o._population]
                        gsrc = [a.position[0][0] for a in o._population]
                        if got != want or gsrc != wsrc:
                            rfail('_greedy_select_population', 'incumbent kept unless challenger strictly cheaper, '
                                  'element-wise on cost-sorted populations', case, [got, gsrc])
                        if sample is None and ncur == 3:
                            sample = {'current_costs': list(ccur), 'new_costs': list(cnew), 'greedy_result': got,
                                      'kept_from': gsrc}
                    n_cases += 1
                    distinct.add((tuple(sorted(ccur)), tuple(sorted(cnew))))
    rep.part('greedy-trim-serial', n_cases, len(distinct), states=n_cases, transitions=n_cases * 3, samples=[sample],
             rule=f"all pairs (current population size 1..{max_cur}, new population size 0..{max_new}) over costs "
                  f"{GALPHA} through _extend_and_trim_population, _replace_and_trim_population, "
                  "_greedy_select_population; all cost pairs through _greedy_select_agent")
    # pooled greedy: every completion order, both pool kinds
    pools.install()
    seams.install()
    seams.CTL.reset({}, 0)
    n_sched, dsched = 0, set()
    psample = None
    try:
        for n in range(1, max_pool + 1):
            orders = list(itertools.permutations(range(n)))
            for ccur in itertools.product(GALPHA, repeat=n):
                for cnew in itertools.product(GALPHA, repeat=n):
                    sc, sn = sorted(ccur), sorted(cnew)
                    want = sorted(('n' if n_ < c_ else 'c', min(c_, n_)) for c_, n_ in zip(sc, sn))
                    for mode in ('thread', 'process'):
                        for order in orders:
                            cur = [mk_agent(('c', i), c) for i, c in enumerate(ccur)]
                            new = [mk_agent(('n', i), c) for i, c in enumerate(cnew)]
                            o = _opt(cur, n, mode=mode, workers=n)
                            pools.PLAN['order'] = list(order)
                            pools.PLAN['assign'] = list(order)
                            try:
                                o._greedy_select_population(new)
                            finally:
                                pools.PLAN['order'] = pools.PLAN['assign'] = None
                            got = sorted((a.position[0][0], a.cost) for a in o._population)
                            if got != want:
                                rfail('_greedy_select_population.pooled', 'multiset differs from the serial outcome',
                                      {'current': list(ccur), 'new': list(cnew), 'mode': mode, 'order': list(order)}, got)
                            elif n <= 3:
                                # the next cycle on the same instance: the incumbents now stand in completion order
                                o._current_cycle = 2
                                inc = sorted(a.cost for a in o._population)
                                new2 = [mk_agent(('m', i), c) for i, c in enumerate(cnew[::-1])]
                                want2 = sorted(min(c_, n_) for c_, n_ in zip(inc, sorted(cnew)))
                                pools.PLAN['order'] = list(order)
                                pools.PLAN['assign'] = list(order)
                                try:
                                    o._greedy_select_population(new2)
                                finally:
                                    pools.PLAN['order'] = pools.PLAN['assign'] = None
                                got2 = sorted(a.cost for a in o._population)
                                if got2 != want2:
                                    rfail('_greedy_select_population.pooled', 'second consecutive call (cycle 2) differs from '
                                          'the element-wise greedy outcome on the cost-sorted populations',
                                          {'current': list(ccur), 'new': list(cnew), 'mode': mode, 'order': list(order)},
                                          [got2, want2])
                                n_sched += 1
                            n_sched += 1
                            dsched.add((tuple(sc), tuple(sn), mode, order))
                            if psample is None and n == 3 and order != tuple(range(n)):
                                psample = {'current_costs': list(ccur), 'new_costs': list(cnew), 'mode': mode,
                                           'completion_order': list(order), 'result': got}
    finally:
        seams.CTL.active = False
        pools.uninstall()
    rep.part('greedy-pooled', n_sched, len(dsched), states=n_sched, transitions=n_sched * max_pool, samples=[psample],
             validated=n_sched,
             rule=f"_greedy_select_population through both model pools for all population pairs of size 1..{max_pool} "
                  f"over {GALPHA} and ALL completion orders / worker assignments")


class _Tag:
    def __init__(self, rep, tag):
        self.rep, self.tag = rep, tag

    def finding(self, key, detail, replay):
        self.rep.finding(key + self.tag, detail, replay)

    def part(self, name, *a, **k):
        self.rep.part(name + self.tag, *a, **k)


def run(rep, tier):
    if tier == 'quick':
        run_selection(rep, 5)
        run_greedy(rep, 3, 4, 3)
    else:
        run_selection(rep, 6)
        run_greedy(rep, 4, 6, 4)
    # the optimizer-level helpers once more on a maximisation task
    TASK_DIRECTION[0] = 'max'
    try:
        run_greedy(_Tag(rep, '|max-task'), 3, 3, 3)
    finally:
        TASK_DIRECTION[0] = 'min'
    rep.assume("cost alphabet {-inf,-1,0,2,+inf} with repetition (ties); agents identified by a unique position tag, "
               "object identity is not required", "NaN costs are outside the alphabet")


def replay(case):
    """re-run one recorded case without the enumeration"""
    from ..report import Reporter
    rep = Reporter('C16', 'quick')
    part = case['part']
    if part == 'selection':
        tt = TaskType(case['tt'])
        pop = [mk_agent(i, c) for i, c in enumerate(case['costs'])]
        check_selection(pop, case['n'], tt, lambda what, why, obs: rep.finding(f"C16|{what}|{why}", str(obs), {}))
    else:
        # greedy / trim cases are cheap: re-run the whole (small) family they belong to
        run_greedy(rep, 3, 4, 3)
    return rep.findings

from ._shared import use_shared


def run(rep, tier):
    use_shared(rep, tier)

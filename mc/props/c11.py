"""C11 - thread and process modes change scheduling, not guarantees.
(a) dedicated harness on _generate_agents: atomic model pools under EVERY completion order / worker assignment;
    interleaved thread model under every interleaving up to a pre-emption bound (RNG-point and line granularity);
(b) pooled greedy selection (all orders) - shared with C16;
(c) whole optimize() runs in thread / process mode inside the shared E1 sweep (schedule deviations d <= 1);
conformance runs bind the model pools to the real executors."""
import concurrent.futures as cf
import itertools
import os

import numpy as np
from pyvolutionary.enums import ModeSolver

from .. import explore, harness, interleave, pools, registry, seams, tasks
from ..monitors import _close
from ..report import seed as env_seed
from ..seams import CTL
from ._shared import use_shared

OPTS3 = ['GreyWolfOptimization', 'BatOptimization', 'ParticleSwarmOptimization']


def fresh_opt(optname, proto, mode, W, task_seed=None):
    o = registry.make(optname)
    mm = 'min'
    if proto.endswith('^max'):
        proto, mm = proto[:-4], 'max'
    o._task = tasks.make_task(proto, minmax=mm, seed=task_seed)
    o._mode = ModeSolver(mode)
    o._workers = W
    return o


def judge(agents, n, task, calls_per_agent=None):
    """specification predicates on the outcome of one pooled _generate_agents(n) -> list of (what, detail)"""
    out = []
    space = tasks.flat_space(task.variables)
    if len(agents) != n:
        out.append(('agents-lost-or-duplicated', f"{len(agents)} agents returned for {n} pooled evaluations"))
    pos = [tuple(map(repr, a.position)) for a in agents]
    # "pairwise distinct" is a statement about independently drawn points of a space with a continuous coordinate; on a
    # purely discrete space (24 permutations, 16 bit strings) equal draws are ordinary
    if any(sp[0] == 'c' for sp in space) and len(set(pos)) != len(pos):
        out.append(('initial-agents-not-pairwise-distinct', f"{len(pos) - len(set(pos))} duplicated positions among {len(pos)}"))
    for a in agents:
        pr = tasks.position_problem(space, a.position)
        if pr is not None:
            out.append(('infeasible-position', f"{pr} {a.position!r:.100}"))
            break
        # agents still carry the INTERNAL cost here: the user's cost, negated for a maximisation task
        sign = 1.0 if str(task.minmax) == 'min' else -1.0
        if not _close(sign * tasks.user_cost(task, a.position), a.cost):
            out.append(('untruthful-cost', f"cost {a.cost!r} at {a.position!r:.100}"))
            break
    if tasks.OBJ['bad']:
        out.append(('objective-called-outside-the-search-space', f"{tasks.OBJ['bad'][0]}"))
    args = tasks.OBJ['args']
    if args is not None and not tasks.OBJ['bad']:
        logged = sorted(tuple(map(repr, x)) for x in args)
        # exactly once: every returned agent was evaluated, nothing else was
        want = sorted(pos)
        if calls_per_agent == 1 and logged != want:
            out.append(('pooled-evaluation-not-exactly-once', f"{len(logged)} objective calls, {len(want)} agents returned"))
        elif not set(want) <= set(logged):
            out.append(('pooled-evaluation-not-exactly-once', 'a returned agent was never evaluated'))
    return out


# ---------------------------------------------------------------------------------------------------------------
def atomic_family(args):
    optname, proto, n, W, seed = args[:5]
    task_seed = args[5] if len(args) > 5 else None
    res = {}
    k, outcomes, sample = 0, set(), None
    seams.install()
    pools.install()
    try:
        for mode in ('thread', 'process'):
            orders = list(itertools.permutations(range(n)))
            assigns = [None] if mode == 'thread' else list(itertools.product(range(min(W, n)), repeat=n))
            for order in orders:
                for assign in assigns:
                  for report in ((None, list(range(n))[::-1], list(range(1, n)) + [0]) if assign in (None, assigns[0]) else (None,)):
                    CTL.reset({}, seed)
                    tasks.reset_obj(keep_args=True)
                    o = fresh_opt(optname, proto, mode, W, task_seed)
                    np.random.seed(task_seed)       # what optimize() does before the population is generated
                    pools.PLAN['order'] = list(order)
                    pools.PLAN['assign'] = list(assign) if assign is not None else None
                    pools.PLAN['report'] = report
                    try:
                        got = o._generate_agents(n)
                    except Exception as e:
                        res.setdefault('pooled-generation-raises', (repr(e), {'mode': mode}))
                        continue
                    finally:
                        pools.PLAN['order'] = pools.PLAN['assign'] = pools.PLAN['report'] = None
                    k += 1
                    outcomes.add((mode, tuple(tuple(map(repr, a.position)) for a in got)))
                    for what, d in judge(got, n, o._task, 1):
                        res.setdefault(what, (d, {'opt': optname, 'proto': proto, 'n': n, 'W': W, 'mode': mode,
                                                  'order': list(order), 'assign': list(assign) if assign else None,
                                                  'report': report, 'seed': seed, 'task_seed': task_seed,
                                                  'part': 'atomic'}))
                    if sample is None and mode == 'process' and assign and len(set(assign)) > 1 and order[0] != 0:
                        sample = {'optimizer': optname, 'n': n, 'workers': W, 'mode': mode, 'completion_order': list(order),
                                  'worker_assignment': list(assign), 'distinct_positions': len({tuple(a.position) for a in got})}
    finally:
        CTL.active = False
        pools.uninstall()
    return k, len(outcomes), res, sample


def run_atomic(rep, ns, Ws, s0):
    work = [(o, p, n, W, s0) for o in OPTS3 for p in ('cont3z', 'mixed3', 'cont3z^max') for n in ns for W in Ws]
    # tasks that carry an integer seed (the library seeds the generator from it before the population is generated)
    work += [(o, 'cont3z', n, W, s0, ts) for o in OPTS3 for n in ns for W in Ws for ts in (5, 2 ** 32 - 1, 0)]
    tot = dist = 0
    samples = []
    for k, d, res, sample in explore.pool().imap_unordered(atomic_family, work):
        tot += k
        dist += d
        if sample and len(samples) < 2:
            samples.append(sample)
        for what, (detail, case) in res.items():
            rep.finding(f"C11|_generate_agents|{what}|{case.get('mode')}", f"{case}: {detail}",
                        {'kind': 'e3', 'module': 'c11', 'case': case})
    rep.part('atomic-pools', tot, dist, states=dist, transitions=tot, validated=0, samples=samples,
             rule=f"_generate_agents(n) for n in {ns} x workers {Ws} x {OPTS3} x two task prototypes through the model "
                  "thread pool under ALL completion orders and the fork-faithful model process pool under ALL "
                  "completion orders x ALL task->worker assignments; distinct = distinct ordered outcomes")


# ---------------------------------------------------------------------------------------------------------------
def interleaved_family(args):
    optname, proto, n, W, bound, line, seed, cap = args[:8]
    keep = len(args) > 8 and args[8] == 'keep'
    task_seed = args[9] if len(args) > 9 else None
    res = {}
    outcomes = set()
    sample = {}
    seams.install()
    st = {}

    def body():
        CTL.reset({}, seed)
        tasks.reset_obj(keep_args=True)
        o = fresh_opt(optname, proto, 'thread', W, task_seed)   # fresh task object: lazily built state is raced for
        st['task'] = o._task
        np.random.seed(task_seed)
        try:
            return o._generate_agents(n)
        except Exception as e:
            return e

    def on_exec(got, sc, choices):
        case = {'opt': optname, 'proto': proto, 'n': n, 'W': W, 'line': line, 'schedule': choices, 'seed': seed,
                'part': 'interleaved'}
        if isinstance(got, interleave.Deadlock):
            res.setdefault('deadlock', (str(got), case))
            return
        if isinstance(got, Exception):
            res.setdefault('pooled-generation-raises', (repr(got), case))
            return
        outcomes.add(tuple(tuple(map(repr, a.position)) for a in got))
        for what, d in judge(got, n, st['task'], 1):
            res.setdefault(what, (d, case))
        if not sample and sum(1 for p in sc.points if p[1] != 0) >= 1:
            sample.update({'optimizer': optname, 'n': n, 'workers': W, 'granularity': 'line' if line else 'rng-point',
                           'schedule_choices': choices[:24], 'scheduling_points': len(sc.points)})
    try:
        k, capped = interleave.explore(body, bound, line=line, on_execution=on_exec, max_executions=cap)
    finally:
        CTL.active = False
    return k, len(outcomes), res, sample, capped, outcomes if keep else None


def run_interleaved(rep, tier, s0):
    work = []
    cap = 6000 if tier == 'quick' else 60000
    for o in OPTS3:
        work.append((o, 'cont3z', 2, 2, None, False, s0, cap))          # unbounded for n = 2
        work.append((o, 'cont3z^max', 2, 2, None, False, s0, cap))      # a maximisation task
        work.append((o, 'cont3z', 3, 2, 3 if tier != 'quick' else 2, False, s0, cap))
        work.append((o, 'cont3z', 3, 3, 3 if tier != 'quick' else 2, False, s0, cap))
        work.append((o, 'mixed3', 2, 2, 1 if tier == 'quick' else 2, True, s0, cap))      # line granularity
        work.append((o, 'cont2s', 2, 2, 1 if tier == 'quick' else 2, True, s0, cap))
        work.append((o, 'perm4', 2, 2, 1, True, s0, cap))        # per-variable scratch state raced for
        work.append((o, 'cont3z', 2, 2, None, False, s0, cap, None, 5))       # task with an integer seed
        work.append((o, 'cont3z', 3, 3, 2, False, s0, cap, None, 5))
        if tier != 'quick':
            work.append((o, 'cont3z', 4, 3, 2, False, s0, cap))
            work.append((o, 'mixed3', 3, 2, 1, True, s0, cap))
    tot = dist = 0
    samples = []
    any_capped = False
    bounds = []
    for k, d, res, sample, capped, _ in explore.pool().imap_unordered(interleaved_family, work):
        tot += k
        dist += d
        any_capped |= capped
        if sample and len(samples) < 2:
            samples.append(sample)
        for what, (detail, case) in res.items():
            rep.finding(f"C11|_generate_agents|{what}|thread-interleaved", f"{case}: {detail}",
                        {'kind': 'e3', 'module': 'c11', 'case': case})
    rep.part('interleaved-threads', tot, dist, states=dist, transitions=tot, samples=samples,
             rule="_generate_agents(n) on real threads under the baton scheduler: every interleaving of the pooled calls "
                  "at RNG-draw / objective-call / call-end granularity (unbounded for n = 2; pre-emption bound "
                  f"{2 if tier == 'quick' else 3} for n = 3) and at source-line granularity (pre-emption bound "
                  f"{1 if tier == 'quick' else 2}); fresh task object per schedule; distinct = distinct ordered outcomes",
             preemption_bound_completed={'rng_points_n2': 'unbounded', 'rng_points_n3': 2 if tier == 'quick' else 3,
                                         'lines': 1 if tier == 'quick' else 2}, capped=any_capped)
    if any_capped:
        rep.exhaustive = False


# ---------------------------------------------------------------------------------------------------------------
def _probe_draw(tag):
    """pooled probe for the fork-faithfulness conformance: the first draw of the worker that runs it"""
    return (os.getpid(), float(np.random.random()))


_TOKEN = {'v': None}


def _probe_init(v):
    _TOKEN['v'] = (v, os.getpid())


def _probe_token(i):
    return (i, _TOKEN['v'])


def run_conformance(rep, tier, s0):
    """the models are validated against the real executors (DESIGN 2.3)"""
    n_val = 0
    R = 20 if tier == 'quick' else 200
    # -- thread: every outcome of the real ThreadPoolExecutor is in the set enumerated by the interleaved model
    seams.install()
    model = interleaved_family(('GreyWolfOptimization', 'cont3z', 3, 2, None, False, s0, None, 'keep'))
    model_set = model[5]
    seams.uninstall()
    real = set()
    for r in range(R):
        o = fresh_opt('GreyWolfOptimization', 'cont3z', 'thread', 2)
        np.random.seed(s0)
        got = o._generate_agents(3)
        real.add(tuple(tuple(map(repr, a.position)) for a in got))
        n_val += 1
    # the model's default answer for seed(None) is the harness seed s0: same stream as np.random.seed(s0)
    # the real as_completed reports calls that finished before it was entered in set order (any permutation), so
    # outcomes are compared as multisets of agents; report-order permutations are explored by the atomic pools
    model_ms = {tuple(sorted(x)) for x in model_set}
    missing = [x for x in real if tuple(sorted(x)) not in model_ms]
    if missing:
        rep.harness_errors.append(f"conformance(thread): a real ThreadPoolExecutor outcome is outside the "
                                  f"{len(model_set)} outcomes enumerated by the interleaved model: {missing[0]}")
    # -- process: fork semantics (workers inherit the parent's generator state; no initializer)
    for W, n in ((2, 3), (3, 4)):
        np.random.seed(s0 + 1)
        expect_first = None
        with cf.ProcessPoolExecutor(W) as ex:
            res = [f.result() for f in [ex.submit(_probe_draw, i) for i in range(n)]]
        st = np.random.get_state()
        np.random.seed(s0 + 1)
        stream = [float(np.random.random()) for _ in range(n)]
        np.random.set_state(st)
        by_pid = {}
        for pid, v in res:
            by_pid.setdefault(pid, []).append(v)
        for pid, vals in by_pid.items():
            n_val += 1
            if vals != stream[:len(vals)]:
                rep.harness_errors.append(f"conformance(process): a forked worker did not replay the parent's stream "
                                          f"prefix: {vals} vs {stream[:len(vals)]}")
        # the model predicts the same multiset for the same assignment
        seams.install()
        pools.install()
        try:
            CTL.reset({}, 0)
            assign_real = [sorted(by_pid).index(pid) for pid, _ in res]
            np.random.seed(s0 + 1)
            pools.PLAN['assign'] = assign_real
            pools.PLAN['order'] = list(range(n))
            with cf.ProcessPoolExecutor(W) as ex:
                mres = [f.result() for f in [ex.submit(_probe_draw, i) for i in range(n)]]
            if sorted(v for _, v in mres) != sorted(v for _, v in res):
                rep.harness_errors.append(f"conformance(process): model pool predicts {sorted(v for _, v in mres)}, "
                                          f"real pool gave {sorted(v for _, v in res)}")
            n_val += 1
        finally:
            pools.PLAN['assign'] = pools.PLAN['order'] = None
            CTL.active = False
            pools.uninstall()
            seams.uninstall()
    # -- process: initializer runs once per worker before its first call (real and model agree)
    for real_pool in (True, False):
        if not real_pool:
            pools.install()
        try:
            with cf.ProcessPoolExecutor(2, initializer=_probe_init, initargs=('tok',)) as ex:
                res = [f.result() for f in [ex.submit(_probe_token, i) for i in range(4)]]
            if any(tok is None or tok[0] != 'tok' for _, tok in res):
                rep.harness_errors.append(f"conformance(process): initializer not run before a call "
                                          f"({'real' if real_pool else 'model'}): {res}")
            n_val += 1
        finally:
            if not real_pool:
                pools.uninstall()
        _TOKEN['v'] = None
    # -- the library's own process pool on the real executor: agents pairwise distinct, none lost
    for W in (2, 4):
        o = fresh_opt('GreyWolfOptimization', 'cont3z', 'process', W)
        tasks.reset_obj()
        got = o._generate_agents(8)
        n_val += 1
        tasks.OBJ['args'] = None
        for what, d in judge(got, 8, o._task):
            rep.finding(f"C11|_generate_agents|{what}|real-process-pool", f"workers={W}: {d}",
                        {'kind': 'e3', 'module': 'c11', 'case': {'part': 'real', 'W': W}})
    rep.part('conformance', n_val, len(real), states=len(model_set), transitions=n_val, validated=n_val,
             samples=[{'real_thread_pool_outcomes_observed': len(real), 'model_outcomes_enumerated': len(model_set)}],
             rule=f"{R} runs of _generate_agents(3) on the real ThreadPoolExecutor(2): every observed ordered outcome must "
                  "belong to the outcome set the interleaved model enumerates without a pre-emption bound; real "
                  "ProcessPoolExecutor: forked workers replay the parent's stream prefix exactly as the model predicts, "
                  "initializer once per worker; the library's own process pool on the real executor")


def run(rep, tier):
    s0 = env_seed()
    if tier == 'quick':
        run_atomic(rep, [2, 3], [1, 2, 3, 16], s0)
    else:
        run_atomic(rep, [2, 3, 4], [1, 2, 3, 4, 16], s0)
    run_interleaved(rep, tier, s0)
    run_conformance(rep, tier, s0)
    # (b) pooled greedy selection under every completion order
    from . import c16
    c16.run_greedy(_Sub(rep), 2, 2, 3 if tier == 'quick' else 4)
    # (c) whole runs in thread / process mode inside the shared sweep
    j = use_shared(rep, tier, prop='C11')
    rep.assume("dedicated harness: n <= 4 pooled calls (the real population of 20 is covered d-bounded in the sweep)",
               "switches inside one source line are not modelled",
               "module globals are shared between model-process workers")


class _Sub:
    """adapter: C16's pooled-greedy enumeration reports under C11"""

    def __init__(self, rep):
        self.rep = rep

    def finding(self, key, detail, replay):
        if 'pooled' in key:
            self.rep.finding(key.replace('C16|', 'C11|'), detail, dict(replay, module='c11'))

    def part(self, name, *a, **k):
        if 'pooled' in name:
            self.rep.part(name, *a, **k)


def replay(case):
    from ..report import Reporter
    rep = Reporter('C11', 'quick')
    part = case.get('part')
    if part == 'atomic':
        k, d, res, s = atomic_family((case['opt'], case['proto'], case['n'], case['W'], case['seed'], case.get('task_seed')))
        for what, (detail, c) in res.items():
            rep.finding(f"C11|_generate_agents|{what}|{c.get('mode')}", detail, {})
    elif part == 'interleaved':
        seams.install()
        st = {}

        def body():
            CTL.reset({}, case['seed'])
            tasks.reset_obj(keep_args=True)
            o = fresh_opt(case['opt'], case['proto'], 'thread', case['W'])
            st['task'] = o._task
            np.random.seed(None)
            return o._generate_agents(case['n'])
        got, sc = interleave.run_schedule(body, case['schedule'], case['line'])
        CTL.active = False
        for what, d in judge(got, case['n'], st['task'], 1):
            rep.finding(f"C11|_generate_agents|{what}|thread-interleaved", d, {})
    else:
        run_conformance(rep, 'quick', 0)
    return rep.findings

"""C08 - a run does not depend on the optimizer instance's history.
Call histories are enumerated as event sequences (|H| <= 2); the probe run on the used instance is compared with the
same run on a fresh instance under the same choice list (results, then canonical instance state at return)."""
import itertools

from .. import explore, registry, sweep
from ..report import seed as env_seed
from ..sweep import _scn

STOP3 = {'fitness_error': None, 'early_stopping': None, 'max_cycles': 3}
EVENTS = [
    {'tag': 'A-same-config', 'proto': 'cont3z', 'over': None},
    {'tag': 'A-cycles3', 'proto': 'cont3z', 'over': dict(STOP3)},
    {'tag': 'A-fitness-error', 'proto': 'cont3z', 'over': dict(STOP3, fitness_error=10.0)},
    {'tag': 'A-early-stop', 'proto': 'cont3z', 'over': dict(STOP3, early_stopping={'patience': 1, 'min_delta': 1.0})},
    {'tag': 'B-other-task', 'proto': 'cont2s', 'over': None, 'tcls': 'B'},
    {'tag': 'B-max', 'proto': 'cont5', 'over': None, 'minmax': 'max', 'tcls': 'B'},
    {'tag': 'M-other-weights', 'proto': 'mo2', 'over': None, 'weights': [0.3, 0.7]},
]
# events used with dedicated probes
EV_SAME_TASK = {'tag': 'same-task-object', 'proto': 'cont3z', 'over': None, 'same_task': True}
EV_B_PROCESS = {'tag': 'B-other-task-process-mode', 'proto': 'cont2s', 'over': None, 'tcls': 'B', 'mode': 'process'}
# the earlier run visits the very same positions (same box, same environment answers) under ANOTHER objective
EV_OTHER_OBJ = {'tag': 'A-other-objective-same-answers', 'proto': 'cont3z', 'over': None, 'obj': 'multi', 'same_seed': True}
EV_BIN_OTHER_OBJ = {'tag': 'bin4-other-objective', 'proto': 'bin4', 'over': None, 'obj': 'multi'}
EV_A_THREAD = {'tag': 'A-same-config-thread-mode', 'proto': 'cont3z', 'over': None, 'mode': 'thread'}


def histories(max_len):
    out = [[]]
    for n in range(1, max_len + 1):
        out += [list(h) for h in itertools.product(EVENTS, repeat=n)]
    return out


def jobs(tier, s0):
    out = []
    H2 = histories(2)
    H1 = histories(1)
    for n in registry.NAMES:
        for h in (H2 if tier == 'thorough' else H1 + [[a, b] for a in EVENTS[:1] + EVENTS[4:5] for b in EVENTS[1:5]]):
            out.append((_scn(n, 'cont3z', cycles=2, seed=s0, runner='c08', history=h), {'d': 0}))
        # second probe: a multi-objective task whose weights differ from the earlier run's
        for h in ([EVENTS[6]], [EVENTS[1]], [EVENTS[6], EVENTS[4]]):
            out.append((_scn(n, 'mo2', cycles=2, seed=s0, runner='c08', history=h, weights=[0.0, 1.0]), {'d': 0}))
        # third probe: early stopping configured in the probe run itself (its first rate change must be r_1 - 0)
        es = {'fitness_error': None, 'max_cycles': 3, 'early_stopping': {'patience': 1, 'min_delta': 10.0}}
        for h in ([EVENTS[0]], [EVENTS[4]], [EVENTS[5]], [EVENTS[2]]):
            out.append((_scn(n, 'cont3z', cycles=3, seed=s0, runner='c08', history=h, over=es), {'d': 0}))
        # sixth probe: positions that were already evaluated in an earlier run under another objective
        out.append((_scn(n, 'cont3z', cycles=2, seed=s0, runner='c08', history=[EV_OTHER_OBJ]), {'d': 0}))
        out.append((_scn(n, 'bin4', cycles=2, seed=s0, runner='c08', history=[EV_BIN_OTHER_OBJ]), {'d': 0}))
        # fourth probe: the very same seeded task object is handed to the optimizer twice
        out.append((_scn(n, 'cont3z', cycles=2, seed=s0, runner='c08', history=[EV_SAME_TASK], task_seed=42), {'d': 0}))
        # fifth probe: pooled modes on a reused instance (model pools, default schedule): another task before
        for mode, h in (('process', [EV_B_PROCESS]), ('process', [EVENTS[4]]), ('thread', [EV_A_THREAD]),
                        ('thread', [EV_B_PROCESS])):
            out.append((_scn(n, 'cont3z', cycles=2, seed=s0, runner='c08', history=h, mode=mode, workers=2), {'d': 0}))
        for mm in ('max',):
            for h in ([EVENTS[0]], [EVENTS[5]], [EVENTS[4]]):
                out.append((_scn(n, 'cont3z', mm, cycles=2, seed=s0, runner='c08', history=h), {'d': 0}))
        if tier == 'thorough':
            for h in ([EVENTS[1]], [EVENTS[4]]):
                out.append((_scn(n, 'cont3z', cycles=2, seed=s0, runner='c08', history=h), {'d': 1, 'range': 'first'}))
    return out


MONS = ['m_c01', 'm_c02', 'm_c03', 'm_c04', 'm_c05', 'm_c09', 'm_c10']


def run(rep, tier):
    s0 = env_seed()

    def compute():
        return explore.run_jobs(jobs(tier, s0), mon_names=MONS).to_json()
    j = sweep.memo_get('c08', tier, s0, compute)
    # findings of the per-run monitors on a reused instance are C08's business too (they hold on a fresh instance)
    keep = []
    for f in j['findings']:
        if f['prop'] != 'C08':
            if f['key'] in rep.known:
                continue      # a listed finding of that property, present on a fresh instance as well
            f['key'] = 'C08|on-reused-instance|' + f['key']
            f['prop'] = 'C08'
        keep.append(f)
    j['findings'] = keep
    rep.add_acc_findings(j)
    rep.add_acc_coverage('histories', j,
                         "call histories over the event alphabet " + str([e['tag'] for e in EVENTS]) +
                         " (|H| <= 2) x all optimizers; probe run on the used instance vs on a fresh instance under the "
                         "same choice list; oracle: equal results, then equal canonical instance state at return; the "
                         "per-run monitors (C01-C05, C09, C10) are re-evaluated on the reused instance",
                         memo_hit=j.get('memo_hit'))
    rep.assume("earlier runs with other stopping options are configured through set_config_parameters (public API)",
               "state comparison at return only (a stale field that is overwritten before it is read is not a leak)")

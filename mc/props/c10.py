"""C10 - the population size is conserved across generations.
shared E1 sweep (population multipliers x cycle budgets x modes x worker counts) + E3 on the helpers that regroup or
regenerate the population."""
import itertools

from pyvolutionary.enums import ModeSolver

from .. import pools, seams
from ..scriptopt import ScriptOpt, ScriptConfig, mk_agent, task0
from ._shared import use_shared


def run_groups(rep, max_pop):
    n, distinct, sample = 0, set(), None
    for pop in range(1, max_pop + 1):
        agents = [mk_agent(i, float(i)) for i in range(pop)]
        for groups in range(1, pop + 1):
            o = ScriptOpt(ScriptConfig(population_size=pop))
            o._population = list(agents)
            n_agents = pop // groups                       # the way every algorithm calls it
            for with_residual in (True, False):
                g = o._generate_group_population(groups, n_agents, with_residual)
                flat = [a.position[0] for grp in g for a in grp]
                n += 1
                distinct.add((pop, groups, with_residual))
                case = {'population': pop, 'groups': groups, 'with_residual': with_residual}
                if len(set(flat)) != len(flat):
                    rep.finding('C10|_generate_group_population|agent-duplicated', f"{case}: {flat}",
                                {'kind': 'e3', 'module': 'c10', 'case': case})
                want = list(range(pop)) if with_residual else list(range(groups * n_agents))
                if sorted(flat) != want:
                    rep.finding('C10|_generate_group_population|not-a-partition', f"{case}: members {sorted(flat)}",
                                {'kind': 'e3', 'module': 'c10', 'case': case})
                if any(len(grp) != n_agents for grp in g[:groups]):
                    rep.finding('C10|_generate_group_population|group-size', f"{case}: {[len(x) for x in g]}",
                                {'kind': 'e3', 'module': 'c10', 'case': case})
                if sample is None and pop == 7 and groups == 3 and with_residual:
                    sample = dict(case, groups_returned=[[a.position[0] for a in grp] for grp in g])
    rep.part('group-populations', n, len(distinct), states=n, transitions=n, samples=[sample],
             rule=f"_generate_group_population(n_groups, population // n_groups, with/without residual) for every "
                  f"population 1..{max_pop} x n_groups 1..population; oracle: the groups partition the population")


def run_generate(rep, max_n):
    """_generate_agents(n) returns exactly n agents in every mode, worker count and completion order"""
    from .. import tasks
    n_cases, distinct = 0, set()
    seams.install()
    pools.install()
    sample = None
    try:
        for n in range(0, max_n + 1):
            for mode in ('serial', 'thread', 'process'):
                for w in ((1, 2, 4) if mode != 'serial' else (None,)):
                    orders = [None] if mode == 'serial' or n < 2 else [list(range(n)), list(range(n))[::-1],
                                                                        list(range(1, n)) + [0]]
                    for order in orders:
                        seams.CTL.reset({}, 5)
                        o = ScriptOpt(ScriptConfig(population_size=max(n, 1)))
                        o._task = tasks.make_task('cont3z')
                        o._mode = ModeSolver(mode)
                        if w:
                            o._workers = w
                        pools.PLAN['order'] = order
                        try:
                            got = o._generate_agents(n)
                        finally:
                            pools.PLAN['order'] = None
                        n_cases += 1
                        distinct.add((n, mode, w, tuple(order) if order else None))
                        if len(got) != n:
                            case = {'n': n, 'mode': mode, 'workers': w, 'order': order}
                            rep.finding('C10|_generate_agents|wrong-count', f"{case}: {len(got)} agents",
                                        {'kind': 'e3', 'module': 'c10', 'case': case})
                        if sample is None and n == 3 and mode == 'process' and order and order[0] != 0:
                            sample = {'n': n, 'mode': mode, 'workers': w, 'completion_order': order,
                                      'agents_returned': len(got)}
    finally:
        seams.CTL.active = False
        pools.uninstall()
    rep.part('generate-agents', n_cases, len(distinct), states=n_cases, transitions=n_cases, samples=[sample],
             rule=f"_generate_agents(n) for n 0..{max_n} x serial/thread/process x workers 1,2,4 x three completion orders")


def run(rep, tier):
    run_groups(rep, 12 if tier == 'quick' else 24)
    run_generate(rep, 6 if tier == 'quick' else 10)
    use_shared(rep, tier)
    rep.assume("exact size is claimed over the property's own configuration alphabet (fixture parameters, population "
               "multipliers 1x/1.5x/2x/3x, cycle budgets, stopping options, modes, worker counts); under one-parameter "
               "deviations of algorithm parameters only 'non-empty and <= population_size' is checked")


def replay(case):
    from ..report import Reporter
    rep = Reporter('C10', 'quick')
    run_groups(rep, 12)
    run_generate(rep, 6)
    return rep.findings

"""C20 - Multitask runs every algorithm on every task with the designated mode.
E3 + E4: the real Multitask constructor / execute / export_results on ScriptOpt instances through the model pools for
every (n, m, shape of `modes`, mode values, n_trials) of the bounded alphabet."""
import contextlib
import io
import itertools
import os
import shutil
import tempfile

from pyvolutionary import Multitask

from .. import explore, pools, scriptopt as so

MODES = ['serial', 'thread', 'process']


def designated(n, m, modes):
    """acceptable algorithms x tasks mode matrices for the documented shapes (None -> serial everywhere)"""
    if modes is None:
        return [[['serial'] * m for _ in range(n)]]
    L = len(modes)
    acc = []
    if L == 1:
        acc.append([[modes[0]] * m for _ in range(n)])
    if L == n:
        acc.append([[modes[i]] * m for i in range(n)])
    if L == m:
        acc.append([list(modes) for _ in range(n)])
    if L == n * m:
        acc.append([list(modes[i * m:(i + 1) * m]) for i in range(n)])
    return acc


def one(n, m, modes, n_trials, export=False, stale=None, n_workers=2):
    so.reset(fn=so.const_score)
    algs = tuple(so.OPT_CLASSES[i](so.ScriptConfig()) for i in range(n))
    tasks = tuple(so.task0(so.TASK_CLASSES[j]) for j in range(m))
    out = []
    if stale:
        # the instances were used stand-alone in another solver mode before being handed to Multitask
        for a in algs:
            with contextlib.redirect_stdout(io.StringIO()):
                a.optimize(tasks[0], mode=stale, workers=3)
        del so.LOG[:]
    valid = modes is None or all(x in MODES for x in modes)
    shapes = designated(n, m, modes)
    try:
        mt = Multitask(algs, tasks, modes=modes, n_workers=n_workers)
    except ValueError as e:
        if valid and shapes:
            out.append(('valid-modes-rejected', f"{type(e).__name__}: {str(e)[:80]}"))
        return out
    except Exception as e:
        out.append(('constructor-raises', f"{type(e).__name__}: {str(e)[:80]}"))
        return out
    if not valid:
        out.append(('unknown-mode-accepted-at-construction', f"{modes}"))
        return out
    if not shapes:
        out.append(('undocumented-shape-accepted', f"{len(modes)} modes for n={n}, m={m}"))
        return out
    try:
        with contextlib.redirect_stdout(io.StringIO()):
            mt.execute(n_trials=n_trials)
    except Exception as e:
        out.append(('execute-raises', f"{type(e).__name__}: {str(e)[:100]}"))
        return out
    got = {}
    for r in so.LOG:
        got.setdefault((r['name'], r['task']), []).append(r['mode'])
    names = [type(a).__name__ for a in algs]
    tnames = [type(t).__name__ for t in tasks]
    ok_counts = True
    for a in names:
        for t in tnames:
            k = len(got.get((a, t), []))
            if k != n_trials:
                out.append(('pair-not-run-n_trials-times', f"({a},{t}): {k} runs for n_trials={n_trials}"))
                ok_counts = False
    if set(got) - {(a, t) for a in names for t in tnames}:
        out.append(('unexpected-pair', f"{set(got)}"))
    if ok_counts:
        used = [[got[(a, t)] for t in tnames] for a in names]
        match = any(all(all(x == want[i][j] for x in used[i][j]) for i in range(n) for j in range(m)) for want in shapes)
        if not match:
            out.append(('mode-not-the-designated-one', f"modes used {[[u[0] for u in row] for row in used]}, "
                        f"designated {shapes}"))
    if len(mt._df2) != n:
        out.append(('tables', f"{len(mt._df2)} tables for {n} algorithms"))
    else:
        for i, df in enumerate(mt._df2):
            if df.shape != (n_trials, m) or list(df.columns) != [f"{names[i]}_{t}" for t in tnames]:
                out.append(('table-shape', f"algorithm {names[i]}: shape {df.shape}, columns {list(df.columns)}"))
                break
    if export and not out:
        for fmt in ('csv', 'json', 'dataframe'):
            d = tempfile.mkdtemp(prefix='verif_c20_')
            try:
                mt.export_results(fmt, d)
                dirs = sorted(os.listdir(d))
                if dirs != sorted(names):
                    out.append(('export-directories', f"{fmt}: {dirs} under save_path, expected {sorted(names)}"))
                else:
                    for a in names:
                        files = os.listdir(os.path.join(d, a))
                        if len(files) != 1 or os.path.isdir(os.path.join(d, a, files[0])):
                            out.append(('export-files', f"{fmt}: {a}/ holds {files}"))
                            break
            except Exception as e:
                out.append(('export-raises', f"{fmt}: {type(e).__name__}: {str(e)[:80]}"))
            finally:
                shutil.rmtree(d, ignore_errors=True)
    return out


def scenarios(max_nm, full33, trials):
    for n in range(1, max_nm + 1):
        for m in range(1, max_nm + 1):
            lens = sorted({1, n, m, n * m})
            yield (n, m, None)
            for L in lens:
                if L == 9 and not full33:
                    # 3 x 3 per-pair shape: every tuple with at most two non-serial entries
                    for idx in itertools.combinations(range(9), 2):
                        for a, b in itertools.product(MODES[1:], repeat=2):
                            t = ['serial'] * 9
                            t[idx[0]], t[idx[1]] = a, b
                            yield (n, m, tuple(t))
                    continue
                for tup in itertools.product(MODES, repeat=L):
                    yield (n, m, tup)
                # one unknown mode at each position
                for pos in range(L):
                    for bad in ('parallel', 'Serial'):
                        t = ['thread'] * L
                        t[pos] = bad
                        yield (n, m, tuple(t))
            # an undocumented length
            for L in (2, 5, 7):
                if L not in lens:
                    yield (n, m, tuple(['serial'] * L))


def _work(args):
    chunk, trials = args
    pools.install()
    res, k = {}, 0
    try:
        for (n, m, modes) in chunk:
            for T in trials:
                finds = one(n, m, modes, T, export=(T == trials[0] and (modes is None or len(modes) <= 2)))
                k += 1
                for what, d in finds:
                    res.setdefault(what, (d, {'n': n, 'm': m, 'modes': list(modes) if modes else None, 'T': T}))
                if T == trials[0] and (modes is None or len(modes) <= 4):
                    # other worker counts (None = the optimizer's default, 1 = a pool of a single worker)
                    for nw in (None, 1):
                        for what, d in one(n, m, modes, T, n_workers=nw):
                            res.setdefault(what + f'|n_workers={nw}', (d, {'n': n, 'm': m, 'modes': list(modes) if modes else None,
                                                                          'T': T, 'n_workers': nw}))
                        k += 1
                if T == trials[0] and (modes is None or len(modes) <= 3):
                    for stale in ('thread', 'process'):
                        for what, d in one(n, m, modes, T, stale=stale):
                            res.setdefault(what + '|instance-used-before-in-' + stale,
                                           (d, {'n': n, 'm': m, 'modes': list(modes) if modes else None, 'T': T,
                                                'stale': stale}))
                        k += 1
    finally:
        pools.uninstall()
    return k, res


def run(rep, tier):
    if tier == 'quick':
        scs, trials = list(scenarios(3, False, None)), [2, 1]
    else:
        scs, trials = list(scenarios(3, True, None)), [1, 2, 3]
    chunks = [(scs[i::64], trials) for i in range(64)]
    n = 0
    for k, res in explore.pool().imap_unordered(_work, chunks):
        n += k
        for what, (d, case) in res.items():
            rep.finding(f"C20|Multitask|{what}", f"{case}: {d}", {'kind': 'e3', 'module': 'c20', 'case': case})
    rep.part('multitask', n, len(scs), states=n, transitions=n, validated=n,
             samples=[{'algorithms': 2, 'tasks': 3, 'modes': ['thread', 'process'], 'n_trials': 2,
                       'designated': designated(2, 3, ('thread', 'process'))}],
             rule=f"n, m in 1..3 x modes = None, every tuple of each documented shape (1, n, m, n*m) over {MODES} "
                  f"({'all 3^9' if tier != 'quick' else 'at most two non-serial entries'} for the 3x3 per-pair shape), "
                  f"one unknown mode at each position, undocumented lengths x n_trials {trials} x three export "
                  "formats; oracle on the call log of ScriptOpt, the per-algorithm tables and the exported tree")
    rep.exhaustive = tier != 'quick'
    rep.assume("algorithms of distinct classes, tasks of distinct classes", "when n == m the per-algorithm and per-task "
               "readings are both accepted (consistently for the whole tuple)")


def replay(case):
    from ..report import Reporter
    rep = Reporter('C20', 'quick')
    pools.install()
    try:
        finds = one(case['n'], case['m'], tuple(case['modes']) if case['modes'] else None, case['T'],
                    export=not case.get('stale') and 'n_workers' not in case, stale=case.get('stale'),
                    n_workers=case.get('n_workers', 2))
        if 'n_workers' in case:
            finds = [(w + f"|n_workers={case['n_workers']}", d) for w, d in finds]
        if case.get('stale'):
            finds = [(w + '|instance-used-before-in-' + case['stale'], d) for w, d in finds]
    finally:
        pools.uninstall()
    for what, d in finds:
        rep.finding(f"C20|Multitask|{what}", d, {})
    return rep.findings

"""C15 - the recorded history is faithful and the trend utilities agree with it.
fidelity: shared E1 sweep, evolution[k] vs an independent deep snapshot taken after every cycle;
utilities: every d = 0 result of the sweep (monitor m_c15_utils) + E3 over hand-built results."""
import itertools

from pyvolutionary import Agent, OptimizationResult, Population, TaskType

from ..monitors import utils_problems
from ._shared import use_shared

COSTS = [-1.0, 0.0, 2.0]


def build(history, mm):
    """history: list of generations, each a tuple of user-sign costs"""
    sign = 1.0 if mm == 'min' else -1.0
    tt = TaskType(mm)     # the library compares against the enum member, as optimize() passes it
    evo = []
    for k, g in enumerate(history):
        agents = [Agent(position=[k, j], cost=sign * c, fitness=0.5) for j, c in enumerate(g)]   # internal sign
        evo.append(Population(agents=agents, task_type=tt))
    last = history[-1]
    best_c = min(last) if mm == 'min' else max(last)
    j = list(last).index(best_c)
    best = Agent(position=[len(history) - 1, j], cost=sign * best_c, fitness=0.5)
    return OptimizationResult(evolution=evo, rates=[0.5] * (len(history) - 1), best_solution=best, task_type=tt)


def one(history, mm):
    res = build(history, mm)
    G = len(history)
    size = min(len(g) for g in history)
    iter_sets = [None] + [list(s) for r in range(1, G + 1) for s in itertools.permutations(range(G), r)]
    return utils_problems(res, mm, idxs=list(range(size)), iter_sets=iter_sets)


def run_handbuilt(rep, max_pop, max_gen):
    n, distinct, sample = 0, set(), None
    pops = [c for s in range(1, max_pop + 1) for c in itertools.product(COSTS, repeat=s)]
    for G in range(2, max_gen + 1):
        for history in itertools.product(pops, repeat=G):
            if len({len(g) for g in history}) != 1 and G == 3:
                continue    # keep the 3-generation family to constant-size histories
            for mm in ('min', 'max'):
                n += 1
                for what, d in one(history, mm):
                    rep.finding(f"C15|utils|{what}", f"history {history} ({mm}): {d}",
                                {'kind': 'e3', 'module': 'c15', 'case': {'history': [list(g) for g in history],
                                                                         'minmax': mm}})
            distinct.add(tuple(tuple(sorted(g)) for g in history))
            if sample is None and G == 2 and len(history[0]) == 3:
                sample = {'history_costs': [list(g) for g in history], 'directions': ['min', 'max'],
                          'ranks': 'all', 'iteration_subsets': 'all ordered subsets + None'}
    rep.part('utilities-handbuilt', n, len(distinct), states=n, transitions=n, samples=[sample],
             rule=f"all histories of 2..{max_gen} generations of populations of size <= {max_pop} over costs {COSTS} "
                  "(ties) x min/max; every rank idx and every ordered subset of iterations plus None through "
                  "agent_trend / agent_position / best_agent_trend / best_agent_position")


def run(rep, tier):
    run_handbuilt(rep, 3, 2 if tier == 'quick' else 3)
    use_shared(rep, tier)
    rep.assume("history fidelity is compared on the reporting contract (position, cost in the user's sign, fitness); "
               "algorithm-private extra fields of agents are not part of it",
               "utilities are checked on results without NaN costs")


def replay(case):
    return {f"C15|utils|{w}": d for w, d in one([tuple(g) for g in case['history']], case['minmax'])}

"""C19 - HyperTuner evaluates the whole grid and selects the best parameters.
E3: ParameterGrid laws over all small grids.  E4: the real HyperTuner.execute / resolve on ScriptOpt for ALL score
tables over a small alphabet, through the model process pool (every execution order of the trials), plus conformance
runs on the real ProcessPoolExecutor."""
import contextlib
import io
import itertools

from pyvolutionary import HyperTuner
from pyvolutionary.hypertuner import ParameterGrid

from .. import explore, pools, scriptopt as so, seams

VALUE_LISTS = [[0], [1, 0], [0, 1, 2]]
KEYS = ['a', 'b', 'c']


def sub_grids(orders=False):
    out = [{}]
    for k in range(1, 4):
        for keys in itertools.combinations(KEYS, k):
            for vals in itertools.product(VALUE_LISTS, repeat=k):
                out.append(dict(zip(keys, vals)))
                if orders:
                    # every insertion order of the keys (iteration sorts them, indexing must agree)
                    for perm in list(itertools.permutations(range(k)))[1:]:
                        out.append({keys[i]: vals[i] for i in perm})
    return out


def ref_points(grid):
    subs = [grid] if isinstance(grid, dict) else grid
    pts = []
    for g in subs:
        keys = sorted(g)
        if not keys:
            pts.append({})
            continue
        for combo in itertools.product(*[g[k] for k in keys]):
            pts.append(dict(zip(keys, combo)))
    return pts


def check_grid(grid, fail):
    pg = ParameterGrid(grid)
    want = ref_points(grid)
    got = list(pg)
    if got != want:
        fail('iteration-not-the-union-of-products', f"{got} expected {want}")
    if len(pg) != len(want):
        fail('len-disagrees-with-iteration', f"len {len(pg)}, {len(want)} points")
    for i in range(len(want)):
        try:
            if pg[i] != want[i]:
                fail('indexing-disagrees-with-iteration', f"[{i}] = {pg[i]} expected {want[i]}")
                break
        except Exception as e:
            fail('indexing-raises', f"[{i}]: {e!r}")
            break
    try:
        pg[len(want)]
        fail('index-beyond-the-grid-accepted', f"[{len(want)}]")
    except IndexError:
        pass
    subs = [grid] if isinstance(grid, dict) else grid
    off = 0
    for g in subs:
        n = len(ref_points(g))
        chunk = [tuple(sorted(p.items())) for p in got[off:off + n]]
        if len(set(chunk)) != len(chunk):
            fail('duplicate-point-in-a-sub-grid', f"{g}")
        off += n


def run_grids(rep, pairs):
    subs = sub_grids()
    grids = list(sub_grids(orders=True)) + [[g] for g in subs[:8]]
    if pairs:
        grids += [[a, b] for a in subs for b in subs]
    else:
        grids += [[a, b] for a in subs[:16] for b in subs[:16]]
    n = 0
    for g in grids:
        n += 1

        def fail(what, obs, g=g):
            rep.finding(f"C19|ParameterGrid|{what}", f"grid {g}: {obs}", {'kind': 'e3', 'module': 'c19',
                                                                          'case': {'part': 'grid', 'grid': g}})
        try:
            check_grid(g, fail)
        except Exception as e:
            fail('raises', repr(e))
    rep.part('parameter-grid', n, n, states=n, transitions=n, samples=[{'grid': [{'a': [1, 0], 'c': [0, 1, 2]}, {}],
                                                                        'points': ref_points([{'a': [1, 0], 'c': [0, 1, 2]}, {}])}],
             rule="every grid with 1-3 keys x value lists [0] / [1,0] / [0,1,2], the empty grid, and lists of <= 2 "
                  "sub-grids; laws: iteration = union of Cartesian products, len, indexing, IndexError beyond, no "
                  "duplicate inside a sub-grid")


SCORES = [-1, 0, 1, 2]


def one_table(G, T, table, mm, order=None, mode='serial', lazy=False, scale=1.0):
    """one real execute() + resolve(); returns list of (what, detail)"""
    keys = [(('k', i),) for i in range(G)]
    table = tuple(x * scale for x in table)
    so.reset(table={k: list(table[i * T:(i + 1) * T]) for i, k in enumerate(keys)})
    out = []
    ht = HyperTuner(so.ScriptOptA(), {'k': list(range(G))})
    pools.PLAN['order'] = order
    pools.PLAN['lazy'] = lazy
    try:
        with contextlib.redirect_stdout(io.StringIO()):
            ht.execute(so.task0(so.T0, mm), n_trials=T, mode=mode, n_workers=2)
    except Exception as e:
        return [('execute-raises', repr(e))], None
    finally:
        pools.PLAN['order'] = None
        pools.PLAN['lazy'] = None
    log = list(so.LOG)
    seen = {}
    for r in log:
        kk = tuple(sorted(r['params'].items()))
        seen.setdefault(kk, []).append(r['score'])
        if r['mode'] != mode:
            out.append(('mode-not-passed', f"{r['mode']} instead of {mode}"))
        if r['config'].get('k') != r['params'].get('k'):
            out.append(('wrong-parameters', f"{r}"))
    for k in keys:
        if len(seen.get(k, [])) != T:
            out.append(('grid-point-not-evaluated-once-per-trial', f"point {dict(k)}: {len(seen.get(k, []))} runs for "
                        f"{T} trials; log {[(r['params'], r['score']) for r in log]}"))
    if set(seen) - set(keys):
        out.append(('evaluated-a-point-outside-the-grid', f"{set(seen) - set(keys)}"))
    if out:
        return out, ht
    means = {k: sum(v) / len(v) for k, v in seen.items()}
    best = (min if mm == 'min' else max)(means.values())
    bp = ht.best_parameters
    bk = tuple(sorted(bp.items())) if isinstance(bp, dict) else None
    if bk not in means:
        out.append(('best-parameters-not-a-grid-point', f"{bp!r}"))
    elif abs(means[bk] - best) > 1e-12 * scale:
        out.append((f'best-parameters-not-optimal|{mm}', f"means {means}, best_parameters {bp} (table {table}, "
                    f"{T} trials, direction {mm})"))
    elif abs(float(ht.best_score) - means[bk]) > 1e-12 * scale:
        out.append(('best-score-not-the-mean', f"best_score {ht.best_score}, mean {means[bk]}"))
    if not out:
        n0 = len(so.LOG)
        with contextlib.redirect_stdout(io.StringIO()):
            ht.resolve()
        if len(so.LOG) != n0 + 1 or so.LOG[-1]['params'] != bp:
            out.append(('resolve-not-run-with-best-parameters', f"{so.LOG[n0:]} vs {bp}"))
    return out, ht


def _work(args):
    G, T, tables, orders = args
    pools.install()
    res, n = {}, 0
    sample = None
    try:
        for table in tables:
            for mm in ('min', 'max'):
                for order, lazy, scale in [(o, False, 1.0) for o in orders] + [(None, True, 1.0), (None, False, 1e-9)]:
                    finds, ht = one_table(G, T, table, mm, order, lazy=lazy, scale=scale)
                    n += 1
                    for what, d in finds:
                        res.setdefault(what, (d, {'part': 'table', 'G': G, 'T': T, 'table': list(table), 'mm': mm,
                                                   'order': order, 'lazy': lazy, 'scale': scale}))
                    if sample is None and mm == 'max' and ht is not None and len(set(table)) > 2:
                        sample = {'grid_points': G, 'trials': T, 'score_table': list(table), 'direction': mm,
                                  'trial_execution_order': order, 'best_parameters': ht.best_parameters,
                                  'best_score': float(ht.best_score)}
    finally:
        pools.uninstall()
    return n, res, sample


def run_tables(rep, shapes):
    work = []
    for G, T in shapes:
        tables = list(itertools.product(SCORES, repeat=G * T))
        # completion orders of the pooled trials: permutations of the trials of a grid point and - should the jobs
        # of several grid points share one pool - of all G*T jobs (all of them up to 4 jobs, else three)
        J = G * T
        if J <= 4:
            orders = [None] + [list(p) for p in itertools.permutations(range(J))][1:]
        else:
            orders = [None, list(range(J))[::-1], list(range(1, J)) + [0]] + \
                     ([list(p) for p in itertools.permutations(range(T))][1:] if T > 1 else [])
        step = max(1, len(tables) // 64)
        for i in range(0, len(tables), step):
            work.append((G, T, tables[i:i + step], orders))
    n, samples, distinct = 0, [], 0
    for cn, res, sample in explore.pool().imap_unordered(_work, work):
        n += cn
        if sample and len(samples) < 2:
            samples.append(sample)
        for what, (d, case) in res.items():
            rep.finding(f"C19|HyperTuner|{what}", d, {'kind': 'e3', 'module': 'c19', 'case': case})
    rep.part('score-tables', n, n, states=n, transitions=n, validated=n, samples=samples,
             rule=f"ALL score tables over {SCORES} for (grid points, trials) in {shapes} x min/max x every execution "
                  "order of the trials of a grid point and eager / lazy pickling of the work items, through the real HyperTuner.execute + resolve on ScriptOpt "
                  "with the model process pool; oracle on the call log and on best_parameters / best_score")


def run_reuse(rep):
    """one tuner object used for two execute() calls (another direction / other scores): the second call's verdict must
    only depend on the second call"""
    n = 0
    pools.install()
    try:
        tables = list(itertools.product(SCORES, repeat=2))
        for t1 in tables:
            for t2 in tables:
                for mm1, mm2 in (('min', 'max'), ('min', 'min'), ('max', 'min')):
                    keys = [(('k', i),) for i in range(2)]
                    ht = HyperTuner(so.ScriptOptA(), {'k': [0, 1]})
                    so.reset(table={k: [t1[i]] for i, k in enumerate(keys)})
                    with contextlib.redirect_stdout(io.StringIO()):
                        ht.execute(so.task0(so.T0, mm1), n_trials=1)
                    so.reset(table={k: [t2[i]] for i, k in enumerate(keys)})
                    with contextlib.redirect_stdout(io.StringIO()):
                        ht.execute(so.task0(so.T1, mm2), n_trials=1)
                    n += 1
                    best = (min if mm2 == 'min' else max)(t2)
                    bp = ht.best_parameters
                    ok = isinstance(bp, dict) and bp.get('k') in (0, 1) and t2[bp['k']] == best and \
                        abs(float(ht.best_score) - best) < 1e-12
                    if not ok:
                        rep.finding('C19|HyperTuner|second-execute-on-the-same-tuner-depends-on-the-first',
                                    f"first call scores {t1} ({mm1}), second call scores {t2} ({mm2}): best_parameters {bp}, "
                                    f"best_score {ht.best_score}", {'kind': 'e3', 'module': 'c19', 'case': {'part': 'reuse'}})
    finally:
        pools.uninstall()
    rep.part('tuner-reuse', n, n, states=n, transitions=2 * n, validated=n,
             samples=[{'first_call': {'scores': [0, 2], 'direction': 'min'}, 'second_call': {'scores': [1, -1], 'direction': 'max'}}],
             rule="every pair of score tables (2 grid points, 1 trial) x three direction pairs through two consecutive "
                  "execute() calls on ONE HyperTuner object; oracle on the second call only")


def run_none_values(rep):
    """grid values that are None (or falsy) must reach the optimizer exactly as given"""
    n = 0
    pools.install()
    try:
        for grid in ({'k': [0, 1], 'flag': [None, 3]}, {'k': [0], 'flag': [0, None]}, [{'k': [1], 'flag': [None]}, {'k': [0]}]):
            pts = ref_points(grid)
            so.reset(fn=so.score_of_k)
            ht = HyperTuner(so.ScriptOptA(), grid)
            with contextlib.redirect_stdout(io.StringIO()):
                ht.execute(so.task0(so.T0, 'min'), n_trials=1)
            n += 1
            seen = [{k: r['config'].get(k) for k in ('k', 'flag')} for r in so.LOG]
            want = [{'k': p.get('k'), 'flag': p['flag'] if 'flag' in p else 7} for p in pts]
            if sorted(map(repr, seen)) != sorted(map(repr, want)):
                rep.finding('C19|HyperTuner|grid-point-not-run-with-its-own-parameters',
                            f"grid {grid}: configurations seen by the optimizer {seen}, grid points {want}",
                            {'kind': 'e3', 'module': 'c19', 'case': {'part': 'none'}})
    finally:
        pools.uninstall()
    rep.part('none-valued-grid-entries', n, n, states=n, transitions=n,
             rule="grids whose value lists contain None / 0 for a parameter whose default is neither: the configuration the "
                  "optimizer runs with must carry exactly the grid point's values")


def run_modes_and_conformance(rep):
    """modes are passed through; the model pool agrees with the real ProcessPoolExecutor on _df_fit"""
    n = 0
    pools.install()
    try:
        for mode in ('serial', 'thread', 'process'):
            finds, _ = one_table(2, 2, (1, 2, 0, 5), 'max', None, mode)
            n += 1
            for what, d in finds:
                rep.finding(f"C19|HyperTuner|{what}", d, {'kind': 'e3', 'module': 'c19', 'case': {'part': 'modes'}})
    finally:
        pools.uninstall()
    # conformance: same scenario on the model pool and on the real pool (scores independent of the call number)
    tabs = []
    for real in (False, True):
        so.reset(fn=so.score_of_k)
        if not real:
            pools.install()
        try:
            ht = HyperTuner(so.ScriptOptA(), {'k': [0, 1, 2]})
            with contextlib.redirect_stdout(io.StringIO()):
                ht.execute(so.task0(so.T0, 'max'), n_trials=2)
            tabs.append((ht._df_fit.drop(columns=['params']).to_dict(), ht.best_parameters, float(ht.best_score)))
        finally:
            if not real:
                pools.uninstall()
    if repr(tabs[0]) != repr(tabs[1]):
        rep.harness_errors.append(f"conformance: model pool and real ProcessPoolExecutor disagree on _df_fit: {tabs}")
    rep.part('modes-and-conformance', n + 2, 3, states=n + 2, transitions=n + 2, validated=1,
             rule="execute() in the three solver modes; one scenario replayed on the real ProcessPoolExecutor must give "
                  "the same _df_fit, best_parameters and best_score as the model pool")


def run(rep, tier):
    run_grids(rep, pairs=(tier == 'thorough'))
    if tier == 'quick':
        run_tables(rep, [(2, 1), (3, 1), (2, 2), (3, 2)])
    else:
        run_tables(rep, [(2, 1), (3, 1), (4, 1), (2, 2), (3, 2), (4, 2), (2, 3)])
    run_reuse(rep)
    run_none_values(rep)
    run_modes_and_conformance(rep)
    rep.assume("scores over the alphabet {-1,0,1,2}; ties may be broken any way", "ScriptOpt: real optimize(), scripted populations")


def replay(case):
    from ..report import Reporter
    rep = Reporter('C19', 'quick')
    if case['part'] == 'grid':
        check_grid(case['grid'], lambda what, obs: rep.finding(f"C19|ParameterGrid|{what}", obs, {}))
    elif case['part'] == 'table':
        pools.install()
        try:
            finds, _ = one_table(case['G'], case['T'], tuple(case['table']), case['mm'], case['order'], lazy=case.get('lazy', False),
                                 scale=case.get('scale', 1.0))
        finally:
            pools.uninstall()
        for what, d in finds:
            rep.finding(f"C19|HyperTuner|{what}", d, {})
    elif case['part'] == 'reuse':
        run_reuse(rep)
    elif case['part'] == 'none':
        run_none_values(rep)
    else:
        run_modes_and_conformance(rep)
    return rep.findings

"""C06 - a valid problem yields a result; an invalid call is rejected up front.
valid side  : shared E1 sweep (continuous prototypes strict, keyed by (optimizer, exception, function, message);
              integer-coded prototypes per (optimizer, encoding) pair against the committed table)
invalid side: E3 over the finite menu of invalid calls x all optimizers"""
import json
import os

from pydantic import ValidationError

import pyvolutionary as pv
from .. import harness, registry, tasks
from ..sweep import _scn
from ._shared import use_shared

HERE = os.path.dirname(os.path.abspath(__file__))
PAIRS_FILE = os.path.join(os.path.dirname(HERE), 'c06_pairs.json')


def check_pairs(rep, j):
    """integer-coded tasks: a pair (optimizer, encoding) that works today must not start failing wholesale"""
    table = json.load(open(PAIRS_FILE)) if os.path.exists(PAIRS_FILE) else {'unprotected': {}}
    unprot = table['unprotected']
    n_pairs = n_prot = 0
    for key, (n, nfail) in sorted(j['pairs'].items()):
        opt, proto = key.split('|')
        if proto not in tasks.INTEGER:
            continue
        n_pairs += 1
        if key in unprot:
            if nfail == n:
                rep.finding(f"C06|{opt}|fails-on-encoding|{proto}", f"all {n} explored executions fail",
                            {'kind': 'e3', 'module': 'c06', 'case': {'part': 'pair', 'opt': opt, 'proto': proto}})
            continue
        n_prot += 1
        if nfail == n:
            rep.finding(f"C06|{opt}|working-pair-now-fails-wholesale|{proto}",
                        f"all {n} explored executions of {opt} on the {proto} encoding fail; the pair works on the "
                        f"reference tree", {'kind': 'e3', 'module': 'c06', 'case': {'part': 'pair', 'opt': opt,
                                                                                   'proto': proto}})
    rep.cov['parts']['integer-pairs'] = {'pairs': n_pairs, 'protected_pairs': n_prot}


INVALID_MODES = ['', 'Serial', 'parallel', 'processes']
INVALID_WORKERS = [0, -1]


def run_invalid(rep, names):
    n = 0
    distinct = set()
    sample = []

    def bad(opt, what, obs):
        rep.finding(f"C06|{opt}|invalid-call-not-rejected|{what}", f"{what}: {obs}",
                    {'kind': 'e3', 'module': 'c06', 'case': {'part': 'invalid', 'opt': opt, 'what': what}})

    def expect_rejected(opt, what, scn, optimizer=None, task=None):
        nonlocal n
        ex = harness.run_execution(scn, opt=optimizer, task=task)
        n += 1
        distinct.add(what)
        if ex.exc is None:
            bad(opt, what, 'optimize() returned a result')
        elif not ex.extra.get('exc_is_valueerror'):
            bad(opt, what, f"raised {ex.exc[0]} instead of ValueError/ValidationError: {ex.exc[3]}")
        elif ex.steps != 0:
            bad(opt, what, f"rejected only after {ex.steps} cycle(s)")
        return ex

    for o in names:
        base = _scn(o, seed=0)
        # no configuration
        try:
            inst = registry.OPTS[o]()
        except Exception as e:
            bad(o, 'no-configuration', f"the optimizer cannot even be constructed without one: {e!r}")
            inst = None
        if inst is not None:
            ex = expect_rejected(o, 'no-configuration', base, optimizer=inst)
            if ex.obj['calls'] != 0:
                bad(o, 'no-configuration', f"{ex.obj['calls']} objective calls before the rejection")
        for m in INVALID_MODES:
            expect_rejected(o, f"mode={m!r}", dict(base, mode=m))
        for w in INVALID_WORKERS:
            ex = expect_rejected(o, f"workers={w}", dict(base, workers=w, mode='thread'))
        # objective / weight count mismatches
        for w in ([1.0], [0.2, 0.3, 0.5]):
            expect_rejected(o, f"{len(w)}-weights-for-2-objectives", dict(base, proto='mo2', weights=w))
        t = tasks.VTask(variables=tasks._vars('cont3z'), data={'obj': 'quad', 'neg': False, 'mo': False,
                                                               'proto': 'cont3z'}, objective_weights=[0.5, 0.5])
        expect_rejected(o, 'weights-for-a-scalar-objective', base, task=t)
    if names:
        sample.append({'optimizer': names[0], 'invalid_call': 'mode="Serial"', 'expected': 'ValueError, 0 cycles'})
    # construction-time rejections (independent of the optimizer)
    ctor = []
    V = pv
    lbs = [(1.0, 0.0), (1.0, 1.0)]
    for lb, ub in lbs:
        ctor.append((f"ContinuousVariable[{lb},{ub}]", lambda lb=lb, ub=ub: V.ContinuousVariable(name='a', lower_bound=lb, upper_bound=ub)))
        ctor.append((f"ContinuousMultiVariable[{lb},{ub}]", lambda lb=lb, ub=ub: V.ContinuousMultiVariable(name='a', lower_bounds=[0, lb], upper_bounds=[1, ub])))
        ctor.append((f"MultiObjectiveVariable[{lb},{ub}]", lambda lb=lb, ub=ub: V.MultiObjectiveVariable(name='a', lower_bounds=[0, lb], upper_bounds=[1, ub])))
    ctor.append(("ContinuousMultiVariable-length-mismatch", lambda: V.ContinuousMultiVariable(name='a', lower_bounds=[0, 0], upper_bounds=[1])))
    ctor.append(("MultiObjectiveVariable-length-mismatch", lambda: V.MultiObjectiveVariable(name='a', lower_bounds=[0], upper_bounds=[1, 2])))
    for k in (0, -1):
        ctor.append((f"BinaryVariable(n_vars={k})", lambda k=k: V.BinaryVariable(name='b', n_vars=k)))
    ctor.append(("negative-weight", lambda: tasks.VTask(variables=tasks._vars('mo2'), data={}, objective_weights=[0.5, -0.1])))
    for what, f in ctor:
        n += 1
        distinct.add(what)
        try:
            f()
        except ValueError:
            continue
        except Exception as e:
            bad('construction', what, f"raised {type(e).__name__}")
            continue
        bad('construction', what, 'accepted')
    rep.part('invalid-calls', n, len(distinct), states=n, transitions=n, samples=sample, validated=n,
             rule="finite menu of invalid calls (no configuration; unknown modes; non-positive workers; 1/3 weights for "
                  "2 objectives; weights for a scalar objective) x every optimizer, plus invalid variable/task "
                  "definitions; oracle: ValueError/ValidationError and zero optimization_step calls")


def run(rep, tier):
    j = use_shared(rep, tier)
    check_pairs(rep, j)
    run_invalid(rep, registry.NAMES)
    rep.assume("integer-coded tasks are judged per (optimizer, encoding) pair: only pairs with zero failures on the "
               "reference tree over seeds 0..4 are protected (mc/c06_pairs.json)")


def replay(case):
    from ..report import Reporter
    rep = Reporter('C06', 'quick')
    if case['part'] == 'invalid':
        run_invalid(rep, [case['opt']] if case['opt'] in registry.OPTS else registry.NAMES[:1])
    else:
        from .. import explore
        jobs = [(_scn(case['opt'], case['proto'], mm, cyc, seed=0), {'d': 0}) for mm in ('min', 'max') for cyc in (1, 2, 3)]
        acc = explore.run_jobs(jobs).to_json()
        explore.close_pool()
        check_pairs(rep, acc)
    return rep.findings

"""C04 - optimize() terminates exactly when the first configured stop criterion holds.
E4 explicit-state search: the stop rule is a state machine over (cycle, rate history).  Every node of the prefix tree
of rate histories is one run of the REAL optimize() on ScriptOpt; the oracle is an independent reference of the rule as
stated in the property.  Plus the observational monitor on the shared E1 sweep."""
import contextlib
import io
import itertools
import os

from .. import explore, scriptopt
from ..monitors import ref_should_stop
from ..scriptopt import ScriptOpt, ScriptConfig, task0
from ._shared import use_shared

RATES = [0.0, 0.125, 0.25, 0.375, 0.5, 1.5]          # dyadic: differences and comparisons are exact
FITNESS_ERRORS = [None, 0.0, 0.125, 0.25, 2.0]
EARLY = [None] + [(p, d) for p in (1, 2, 3) for d in (0.125, 0.25, 1.0)]


class Budget(Exception):
    pass


def gen_for(rate, shape, family):
    """a generation whose MEAN fitness gives |1 - mean| == rate while best / median / first agent do not"""
    m = 1.0 - rate if family == 'A' else 1.0 + rate
    fits = {1: [m], 2: [m + 0.25, m - 0.25], 4: [m + 0.5, m, m - 0.25, m - 0.25]}[shape]
    return [(i, float(i), f) for i, f in enumerate(fits)]


class BudgetOpt(ScriptOpt):
    BUDGET = 8

    def optimization_step(self):
        if self.steps >= self.BUDGET:
            raise Budget()
        super().optimization_step()


def run_node(cfg, hist, shape, family):
    """one real optimize() run whose first len(hist) cycles produce the rates hist (later cycles repeat the last)"""
    mc, fe, es = cfg
    gens = [gen_for(0.5, shape, family)] + [gen_for(r, shape, family) for r in hist]
    scriptopt.reset(gens=gens)
    kw = dict(population_size=shape, max_cycles=mc, fitness_error=fe)
    if es is not None:
        kw['early_stopping'] = {'patience': es[0], 'min_delta': es[1]}
    o = BudgetOpt(ScriptConfig(**kw))
    with contextlib.redirect_stdout(io.StringIO()):
        try:
            res = o.optimize(task0())
        except Budget:
            return None, o.steps
    return res, o.steps


def judge(cfg, hist, shape, family, res, steps):
    """-> list of (what, detail)"""
    mc, fe, es = cfg
    out = []
    if res is None:
        return [('never-stops', f"still running after {steps} cycles")]
    k = len(hist)
    ref = None
    for j in range(1, k + 1):
        if ref_should_stop(j, hist[:j], mc, fe, es):
            ref = j
            break
    if ref is not None:
        if steps < ref:
            out.append(('stopped-early', f"stopped after cycle {steps}; the first criterion holds at cycle {ref}"))
        elif steps > ref:
            out.append(('stopped-late', f"ran {steps} cycles; a criterion already held at cycle {ref}"))
    else:
        if steps <= k:
            out.append(('stopped-early', f"stopped after cycle {steps}; no criterion holds within {k} cycles"))
    if steps > mc:
        out.append(('more-than-max-cycles', f"{steps} cycles with max_cycles={mc}"))
    if len(res.evolution) != steps + 1:
        out.append(('generations-vs-cycles', f"{len(res.evolution)} generations for {steps} cycles"))
    if len(res.rates) != steps:
        out.append(('rates-vs-cycles', f"{len(res.rates)} rates for {steps} cycles"))
    else:
        want = [hist[min(i, k - 1)] for i in range(steps)]
        if [float(r) for r in res.rates] != want:
            out.append(('rate-not-mean-fitness', f"rates {list(res.rates)} expected {want}"))
    return out


def explore_cfg(args):
    cfg, shape, family, L = args
    mc, fe, es = cfg
    n = 0
    finds = {}
    states = set()
    sample = None
    stack = [[r] for r in RATES]
    while stack:
        h = stack.pop()
        res, steps = run_node(cfg, h, shape, family)
        n += 1
        states.add((min(len(h), steps), tuple(h[:steps])))
        for what, detail in judge(cfg, h, shape, family, res, steps):
            if what not in finds:
                finds[what] = (detail, {'cfg': list(cfg), 'history': list(h), 'shape': shape, 'family': family})
        if sample is None and len(h) == 3:
            sample = {'max_cycles': mc, 'fitness_error': fe, 'early_stopping': es, 'rate_history': list(h),
                      'population': shape, 'cycles_run': steps}
        # extend only while neither the implementation nor the reference has stopped inside the prefix
        ref_stopped = any(ref_should_stop(j, h[:j], mc, fe, es) for j in range(1, len(h) + 1))
        if len(h) < L and not ref_stopped and (res is None or steps > len(h)):
            for r in RATES:
                stack.append(h + [r])
    return n, finds, len(states), sample


def configs(L):
    for mc in range(1, L + 2):
        for fe in FITNESS_ERRORS:
            for es in EARLY:
                yield (mc, fe, es)


def run_machine(rep, L, shapes, families):
    BudgetOpt.BUDGET = L + 3
    work = [(cfg, shape, fam, L) for cfg in configs(L) for shape in shapes for fam in families]
    total = states = 0
    samples = []
    p = explore.pool()
    for n, finds, st, sample in p.imap_unordered(explore_cfg, work, chunksize=4):
        total += n
        states += st
        if sample and len(samples) < 3:
            samples.append(sample)
        for what, (detail, case) in finds.items():
            rep.finding(f"C04|stop-rule|{what}", f"{case}: {detail}",
                        {'kind': 'e3', 'module': 'c04', 'case': case})
    rep.part(f"stop-rule-machine-L{L}-{''.join(families)}", total, states, states=states, transitions=total, validated=total, samples=samples,
             rule=f"prefix tree of rate histories over {RATES} up to length {L}, extended only while the run has not "
                  f"stopped; x max_cycles 1..{L + 1} x fitness_error {FITNESS_ERRORS} x early_stopping {EARLY} x "
                  f"population shapes {shapes} x fitness families {families}; every node is one real optimize() of "
                  "ScriptOpt; distinct = distinct (cycles run, rate prefix) states",
             history_length=L, configurations=len(work))


def run(rep, tier):
    if tier == 'quick':
        run_machine(rep, 4, [1, 4], ['A'])
        run_machine(rep, 3, [2], ['B'])
    else:
        run_machine(rep, 5, [1, 4], ['A'])
        run_machine(rep, 4, [1, 2, 4], ['B'])
    use_shared(rep, tier)
    rep.assume("rates restricted to the dyadic alphabet; early stopping: the first change of the rate is r_1 - 0",
               "fresh optimizer instance per run (instance reuse is C08)")


def replay(case):
    from ..report import Reporter
    rep = Reporter('C04', 'quick')
    cfg = case['cfg']
    cfg = (cfg[0], cfg[1], tuple(cfg[2]) if cfg[2] is not None else None)
    BudgetOpt.BUDGET = len(case['history']) + 4
    res, steps = run_node(cfg, case['history'], case['shape'], case['family'])
    for what, detail in judge(cfg, case['history'], case['shape'], case['family'], res, steps):
        rep.finding(f"C04|stop-rule|{what}", detail, {})
    return rep.findings

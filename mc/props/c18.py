"""C18 - every optimizer honours the uniform construction / configuration API.
E3: 84 classes x parameter dictionaries with <= 1 field deviating from the fixture over a field alphabet.
Pairs of executions: Cls(Config(**d)) vs Cls(); set_config_parameters(d) under the same choice list."""
import signal

from .. import explore, harness, registry, sweep, tasks
from ..report import seed as env_seed
from ..sweep import _scn

MISSING = '<missing>'
FIELD_ALPHA = [MISSING, None, 'x', -1, 0, 1e9, [1, 2, 3, 4, 5, 6, 7]]


def dict_variants(name):
    import numpy as np
    base = registry.base_params(name)
    yield ('fixture', dict(base))
    # values of another type that the (lax) config model coerces: the two construction paths must agree on them too
    for f, v in base.items():
        alts = []
        if isinstance(v, bool):
            continue
        if isinstance(v, int):
            alts = [float(v), np.int64(v), str(v)]
        elif isinstance(v, float):
            alts = [np.float64(v), str(v)] + ([int(v)] if float(v).is_integer() else [])
        for a in alts:
            d = dict(base)
            d[f] = a
            yield (f"{f}=<{type(a).__name__}>{a!r}", d)
    for f in base:
        for v in FIELD_ALPHA:
            d = dict(base)
            if v is MISSING:
                del d[f]
            else:
                d[f] = v
            yield (f"{f}={v!r}", d)


def run_config_equivalence(rep):
    n, accepted, rejected = 0, 0, 0
    runnable = []
    for name in registry.NAMES:
        cls, ccls = registry.OPTS[name], registry.config_class(name)

        def fail(what, obs, name=name):
            rep.finding(f"C18|{name}|{what}", obs, {'kind': 'e3', 'module': 'c18', 'case': {'opt': name}})
        try:
            inst = cls()
        except Exception as e:
            fail('cannot-be-constructed-without-configuration', repr(e))
            continue
        if inst.configuration is not None:
            fail('configuration-not-None-after-bare-construction', repr(inst.configuration))
        t = tasks.make_task('cont3z')
        tasks.reset_obj()
        try:
            inst.optimize(t)
            fail('optimises-without-configuration', 'optimize() returned')
        except ValueError:
            if tasks.OBJ['calls']:
                fail('objective-called-before-rejection', f"{tasks.OBJ['calls']} calls")
        except Exception as e:
            fail('wrong-exception-without-configuration', repr(e))
        for tag, d in dict_variants(name):
            n += 1
            e1 = e2 = c1 = None
            try:
                c1 = ccls(**d)
            except ValueError as e:
                e1 = e
            except Exception as e:
                e1 = e
            o = cls()
            try:
                o.set_config_parameters(dict(d))
            except ValueError as e:
                e2 = e
            except Exception as e:
                e2 = e
            if (e1 is None) != (e2 is None):
                fail('set_config_parameters-and-config-class-disagree-on-validity',
                     f"{tag}: Config(**d) -> {type(e1).__name__ if e1 else 'accepted'}, set_config_parameters -> "
                     f"{type(e2).__name__ if e2 else 'accepted'}")
                continue
            if e1 is not None:
                rejected += 1
                numeric = tag.endswith(('=-1', '=0', '=1000000000.0'))
                if numeric and not isinstance(e2, ValueError):
                    # the property promises a validation error for out-of-range VALUES; for wrong-typed values
                    # (None, a string, a list) only the agreement of the two paths is required
                    fail('out-of-range-value-not-a-validation-error', f"{tag}: {type(e2).__name__}: {e2}")
                elif type(e1) is not type(e2):
                    fail('set_config_parameters-and-config-class-raise-differently',
                         f"{tag}: {type(e1).__name__} vs {type(e2).__name__}")
                continue
            accepted += 1
            c2 = o.configuration
            if type(c2) is not ccls or c2 != c1 or c2.model_dump() != c1.model_dump():
                fail('set_config_parameters-builds-another-configuration', f"{tag}: {c2!r} vs {c1!r}")
            if isinstance(d.get('population_size'), int) and 0 < d['population_size'] <= 100 and \
                    isinstance(d.get('max_cycles'), int) and 0 < d['max_cycles'] <= 50 and tag != 'fixture' and \
                    all(v != 1e9 for v in d.values()):
                f = tag.split('=')[0]
                if f not in registry.BASE_FIELDS:
                    runnable.append((name, f, d.get(f, MISSING)))
    rep.part('config-equivalence', n, accepted + rejected, states=n, transitions=n,
             samples=[{'optimizer': 'BatOptimization', 'dictionary': 'fixture with alpha=None',
                       'compared': 'BatOptimizationConfig(**d) vs BatOptimization().set_config_parameters(d)'}],
             rule=f"84 classes x dictionaries with <= 1 field deviating from the fixture over {FIELD_ALPHA}: bare "
                  "construction, refusal to optimise, agreement of set_config_parameters with the config class "
                  "(both reject with a validation error, or equal configurations)", accepted=accepted, rejected=rejected)
    return runnable


def jobs(s0, runnable, tier):
    out = []
    for n in registry.NAMES:
        out.append((_scn(n, seed=s0, runner='c18', timeout=20), {'d': 0}))
        out.append((_scn(n, 'mixed3', 'max', seed=s0, runner='c18', timeout=20), {'d': 0}))
        for f, v in registry.param_deviations(n):
            out.append((_scn(n, seed=s0, over={f: v}, runner='c18', timeout=20, reconfigure=True), {'d': 0}))
        # also a different population size / cycle budget than the instance was built with
        out.append((_scn(n, seed=s0, cycles=3, pop_mult=1.5, runner='c18', timeout=30, reconfigure=True), {'d': 0}))
        if tier == 'thorough':
            out.append((_scn(n, seed=s0, runner='c18', timeout=60), {'d': 1, 'range': 'init'}))
    for n, f, v in runnable:
        if v is MISSING:
            continue
        out.append((_scn(n, seed=s0, over={f: v}, runner='c18', timeout=20), {'d': 0}))
    return out


def run(rep, tier):
    s0 = env_seed()
    runnable = run_config_equivalence(rep)

    def compute():
        return explore.run_jobs(jobs(s0, runnable, tier), mon_names=[]).to_json()
    j = sweep.memo_get('c18', tier, s0, compute)
    rep.add_acc_findings(j)
    rep.add_acc_coverage('construction-paths', j,
                         "pairs of executions Cls(Config(**d)) / Cls() + set_config_parameters(d) under the same choice "
                         "list for the fixture, every accepted one-parameter neighbour deviation and every accepted "
                         "alphabet value of an algorithm parameter; oracle: equal results or the same exception from the "
                         "same function", memo_hit=j.get('memo_hit'))
    rep.assume("run equivalence only for dictionaries with fixture population_size / max_cycles (1e9 cycles cannot be run)",
               "executions longer than 20 s on either path are cut on both paths and compared up to the cut")


def replay(case):
    from ..report import Reporter
    rep = Reporter('C18', 'quick')
    run_config_equivalence(rep)
    return rep.findings

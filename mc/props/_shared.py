"""Common part of the properties decided (wholly or partly) on the shared E1 sweep."""
from .. import sweep

RULE = ("E1: every execution of the real optimize() with <= d deviating environment answers (RNG draws replaced by "
        "extreme legal values, pool completion order / worker assignment replaced by another enabled choice) over the "
        "scenario list of mc.sweep.shared_jobs; a case is non-trivial when at least one deviation was applied; "
        "distinct = distinct canonical end results among those")

ASSUME = [
    "numeric inputs limited to the task/objective/config alphabets of mc.tasks and mc.sweep (DESIGN 2.5)",
    "at most d simultaneous deviating answers (d = 1; thorough adds d = 2 inside a window of 2 points)",
    "deviating answers are interior extreme quantiles (2^-30, 1-2^-30, +-6 sigma), not exact endpoints",
    "thread switches inside a pooled call are not modelled by the atomic pools (C11 has the interleaved harness)",
    "model process pool shares module globals between logical workers",
]


def use_shared(rep, tier, prop=None):
    j = sweep.get_shared(tier, progress=lambda m: print(f"  [sweep] {m}", flush=True))
    rep.add_acc_findings(j, prop)
    rep.add_acc_coverage('shared-sweep', j, RULE, memo_hit=j.get('memo_hit'), jobs=j.get('jobs'),
                         sweep_wall_s=j.get('wall_s'))
    rep.assume(*ASSUME)
    return j

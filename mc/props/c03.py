"""C03 - best_solution is the optimum of the final generation in the task's direction.
shared E1 sweep + E3/E4: every final population of size <= 5 over a cost alphabet with ties, in every order, both
directions, through the real optimize() of ScriptOpt."""
import contextlib
import io
import itertools
from types import SimpleNamespace

from .. import monitors, scriptopt
from ..scriptopt import ScriptOpt, ScriptConfig, task0
from ._shared import use_shared

ALPHA = [-2.0, -1.0, 0.0, 1.0, 3.0]     # repetition gives the ties; every ordering of a multiset is enumerated


def one(costs, mm, mode=None):
    # two cycles whose mean fitness does not change while every agent moves (plateau-like), then the final generation
    gens = [[(('g0', i), 5.0 + i, 0.5) for i in range(len(costs))],
            [(('g1', i), 4.0 - i, 0.5) for i in range(len(costs))],
            [(('g2', i), c, 0.5) for i, c in enumerate(costs)]]
    scriptopt.reset(gens=gens)
    o = ScriptOpt(ScriptConfig(population_size=len(costs), max_cycles=2))
    with contextlib.redirect_stdout(io.StringIO()):
        res = o.optimize(task0(minmax=mm), **({'mode': mode} if mode else {}))
    ex = SimpleNamespace(result=res, scn={'opt': 'ScriptOpt', 'minmax': mm})
    return [(k.replace('C03|ScriptOpt|', 'C03|final-generation|'), d) for _, k, d in monitors.m_c03(ex)], res


def run_final(rep, max_size):
    n, distinct, sample = 0, set(), None
    for size in range(1, max_size + 1):
        for costs in itertools.product(ALPHA, repeat=size):
            for mm, mode in (('min', None), ('max', None), ('min', 'thread'), ('max', 'process')):
                finds, res = one(costs, mm, mode)
                n += 1
                for k, d in finds:
                    rep.finding(k + (f"|mode={mode}" if mode else ''), f"final generation costs {list(costs)} ({mm}): {d}",
                                {'kind': 'e3', 'module': 'c03', 'case': {'costs': list(costs), 'minmax': mm, 'mode': mode}})
                # reported costs must come back in the user's sign
                if [a.cost for a in res.evolution[-1].agents] != list(costs):
                    rep.finding('C03|final-generation|costs-not-in-user-sign', f"{list(costs)} ({mm})",
                                {'kind': 'e3', 'module': 'c03', 'case': {'costs': list(costs), 'minmax': mm}})
            distinct.add(tuple(sorted(costs)))
            if sample is None and size == 4 and len(set(costs)) < 4:
                sample = {'final_generation_costs': list(costs), 'directions': ['min', 'max'],
                          'best_solution_cost_min': one(costs, 'min')[1].best_solution.cost}
    rep.part('final-generations', n, len(distinct), states=n, transitions=n, validated=n, samples=[sample],
             rule=f"every final generation of size 1..{max_size} over costs {ALPHA} (all orders, ties) x min/max "
                  "through the real optimize() of ScriptOpt; distinct = cost multisets")


def run(rep, tier):
    run_final(rep, 5 if tier == 'quick' else 6)
    use_shared(rep, tier)


def replay(case):
    return {k + (f"|mode={case.get('mode')}" if case.get('mode') else ''): d
            for k, d in one(case['costs'], case['minmax'], case.get('mode'))[0]}

"""C14 - a task's search-space description is consistent with its variables.
E3: every variable list of length 1..3 over 11 variable prototypes; reference model = explicit loops over the declared
variables."""
import itertools

import numpy as np

from pyvolutionary import (
    Task, ContinuousVariable, ContinuousMultiVariable, MultiObjectiveVariable, DiscreteVariable,
    DiscreteMultiVariable, BinaryVariable, PermutationVariable,
)

from .. import seams
from ..seams import CTL
from .c13 import member


class T(Task):
    def objective_function(self, x):
        return 0.0


def proto(kind, name):
    if kind == 'C':
        return ContinuousVariable(name=name, lower_bound=-3, upper_bound=4)
    if kind == 'CM1':
        return ContinuousMultiVariable(name=name, lower_bounds=[1e6], upper_bounds=[1e6 + 1])
    if kind == 'CM2':
        return ContinuousMultiVariable(name=name, lower_bounds=[0, -5], upper_bounds=[10, 0])
    if kind == 'D':
        return DiscreteVariable(name=name, choices=['p', 'q', 'r'])
    if kind == 'DL':      # a scalar choice variable whose choices are themselves lists of different lengths
        return DiscreteVariable(name=name, choices=[[16], [32, 16], [64, 32, 16], []])
    if kind == 'DM1':
        return DiscreteMultiVariable(name=name, choices=[[10, 20]])
    if kind == 'DM2':
        return DiscreteMultiVariable(name=name, choices=[[1, 2, 3, 4], ['u', 'v', 'w']])
    if kind == 'DM3':
        return DiscreteMultiVariable(name=name, choices=[[1, 2], ['u', 'v', 'w'], [0.5, 1.5, 2.5, 3.5]])
    if kind == 'B1':
        return BinaryVariable(name=name, n_vars=1)
    if kind == 'B2':
        return BinaryVariable(name=name, n_vars=2)
    if kind == 'P3':
        return PermutationVariable(name=name, items=['x', 'y', 'z'])
    if kind == 'MO2':
        return MultiObjectiveVariable(name=name, lower_bounds=(-2, 0), upper_bounds=(3, 5))
    raise KeyError(kind)


KINDS = ['C', 'CM1', 'CM2', 'D', 'DL', 'DM1', 'DM2', 'DM3', 'B1', 'B2', 'P3', 'MO2']


def leaves(v):
    return list(v.get()) if v.has_children() else [v]


def ref_bounds(v):
    """the variable's own bounds, one (lb, ub) pair per coordinate, by explicit loops"""
    b = v.get_bounds()
    if v.has_children():
        return [(b[0][i], b[1][i]) for i in range(v.size())]
    return [(b[0], b[1])]


def coord_alphabet(leaf):
    if isinstance(leaf, ContinuousVariable):
        l, u = leaf.lower_bound, leaf.upper_bound
        return [l - 1.5, l, l + (u - l) / 4, u, u + 2.5]
    if isinstance(leaf, DiscreteVariable):
        n = len(leaf.choices)
        return [-1, 0, (n - 1) / 2 + 0.25, n - 1, n + 1]
    if isinstance(leaf, PermutationVariable):
        return [[2, 0, 1], [0.5, 0.1, 0.9], [0, 1, 2], [1, 1, 0], [3.0, 2.0, 1.0]]
    raise TypeError(leaf)


def same(a, b):
    if isinstance(a, (list, tuple, np.ndarray)) or isinstance(b, (list, tuple, np.ndarray)):
        try:
            return len(a) == len(b) and all(same(x, y) for x, y in zip(a, b))
        except TypeError:
            return False
    return type(a) is type(b) and a == b or (isinstance(a, float) and isinstance(b, float) and a == b)


def check_task(cx, kinds, cap):
    variables = [proto(k, f"v{i}") for i, k in enumerate(kinds)]
    case = {'variables': list(kinds)}

    def fail(what, obs):
        cx['rep'].finding(f"C14|{what}", f"{case}: {obs}", {'kind': 'e3', 'module': 'c14', 'case': case})
    try:
        t = T(variables=variables)
    except Exception as e:
        return fail('task-construction-raises', repr(e))
    flat = [lf for v in variables for lf in leaves(v)]
    dim = sum(v.size() for v in variables)
    cx['n'] += 1
    if t.space_dimension != dim or len(flat) != dim:
        fail('space_dimension', f"{t.space_dimension} != sum of sizes {dim}")
    # get_bounds
    has_perm_mix = any(isinstance(v, PermutationVariable) for v in variables) and len(variables) > 1
    try:
        lb, ub = t.get_bounds()
        want = [p for v in variables for p in ref_bounds(v)]
        if len(lb) != dim or len(ub) != dim:
            fail('get_bounds-length', f"{len(lb)} pairs for {dim} coordinates")
        else:
            for j, (wl, wu) in enumerate(want):
                if not same(list(lb[j]) if isinstance(wl, list) else float(lb[j]), wl if isinstance(wl, list) else float(wl)) or \
                        not same(list(ub[j]) if isinstance(wu, list) else float(ub[j]), wu if isinstance(wu, list) else float(wu)):
                    fail('get_bounds-not-the-variable-bounds', f"coordinate {j}: ({lb[j]}, {ub[j]}) expected ({wl}, {wu})")
                    break
                if np.any(np.asarray(lb[j]) > np.asarray(ub[j])):
                    fail('get_bounds-lower-above-upper', f"coordinate {j}")
                    break
        # a caller that edits the arrays it was handed must not change what the task reports afterwards
        try:
            lb *= 0.5
            ub += 1.0
        except Exception:
            pass
        lb2, ub2 = t.get_bounds()
        for j, (wl, wu) in enumerate(want):
            if isinstance(wl, list):
                continue
            if float(lb2[j]) != float(wl) or float(ub2[j]) != float(wu):
                fail('get_bounds-aliased-to-internal-state', f"after the caller edited the returned arrays, coordinate {j} "
                     f"reports ({lb2[j]}, {ub2[j]}) instead of ({wl}, {wu})")
                break
    except Exception as e:
        fail('get_bounds-raises' + ('|permutation-next-to-other-variables' if has_perm_mix else ''),
             f"{type(e).__name__}: {str(e)[:100]}")
    # the description must follow the variables: edit a variable, or derive a task with other variables, AFTER the
    # bounds were asked for once
    if not has_perm_mix and len(kinds) <= 2:
        try:
            for v in variables:
                if isinstance(v, ContinuousVariable):
                    v.upper_bound = v.upper_bound + 2.0
                elif isinstance(v, DiscreteVariable):
                    v.choices.append('extra')
                else:
                    continue
                lb3, ub3 = t.get_bounds()
                want3 = [p for w in variables for p in ref_bounds(w)]
                if any(not isinstance(wl, list) and (float(lb3[j]) != float(wl) or float(ub3[j]) != float(wu))
                       for j, (wl, wu) in enumerate(want3)):
                    fail('get_bounds-does-not-follow-an-edited-variable', f"{type(v).__name__} edited after the first call")
                # undo
                if isinstance(v, ContinuousVariable):
                    v.upper_bound = v.upper_bound - 2.0
                else:
                    v.choices.pop()
                break
            other = [proto('C', 'w0'), proto('D', 'w1')]
            t2 = t.model_copy(update={'variables': other, 'space_dimension': 2})
            lb4, ub4 = t2.get_bounds()
            want4 = [p for w in other for p in ref_bounds(w)]
            if len(lb4) != 2 or any(float(lb4[j]) != float(wl) or float(ub4[j]) != float(wu) for j, (wl, wu) in enumerate(want4)):
                fail('get_bounds-of-a-derived-task-describes-the-original', f"model_copy(update=variables): {lb4}, {ub4}")
        except Exception as e:
            fail('sequence-check-raises', f"{type(e).__name__}: {str(e)[:100]}")
    # empty_solution under every RNG answer
    seams.install()
    try:
        CTL.reset({}, 3)
        t.empty_solution()
        npts = len(CTL.trace)
        for dev in [{}] + [{i: a} for i in range(npts) for a in (1, 2)]:
            CTL.reset(dev, 3)
            x = t.empty_solution()
            cx['n'] += 1
            if len(x) != dim:
                fail('empty_solution-length', f"{len(x)} coordinates for dimension {dim}")
                break
            bad = [j for j, (lf, c) in enumerate(zip(flat, x)) if not member(lf, c)]
            if bad:
                fail('empty_solution-outside-domain', f"coordinate {bad[0]} = {x[bad[0]]!r} under answer {dev}")
                break
            y = t.initial_solution()
    finally:
        CTL.active = False
        seams.uninstall()
    # correct_solution / transform_solution
    alph = [coord_alphabet(lf) for lf in flat]
    if dim <= cap:
        vectors = itertools.product(*alph)
    else:
        base = [a[2] for a in alph]
        vs = [tuple(a[k] for a in alph) for k in range(5)]
        for j in range(dim):
            for k in (0, 1, 3, 4):
                w = list(base)
                w[j] = alph[j][k]
                vs.append(tuple(w))
        vectors = vs
        cx['capped'] += 1
    for vec in vectors:
        cx['n'] += 1
        for form in (list(vec),) if any(isinstance(e, list) for e in vec) else (list(vec), np.array(vec, dtype=float)):
            try:
                r = t.correct_solution(form)
            except Exception as e:
                fail('correct_solution-raises', f"{vec}: {type(e).__name__}: {str(e)[:80]}")
                break
            want = [lf.correct(c) for lf, c in zip(flat, vec)]
            if len(r) != dim or not all(same(a, b) for a, b in zip(r, want)):
                fail('correct_solution-not-coordinate-wise', f"{vec} -> {r}, owners give {want}")
                break
        else:
            try:
                d = t.transform_solution(r)
            except Exception as e:
                fail('transform_solution-raises', f"{r}: {type(e).__name__}: {str(e)[:80]}")
                continue
            if list(d.keys()) != [v.name for v in variables]:
                fail('transform_solution-keys', f"{list(d.keys())}")
                continue
            c = 0
            for v in variables:
                sl = r[c:c + v.size()]
                c += v.size()
                wantd = v.decode(sl) if v.has_children() else v.decode(sl[0])
                if not same(d[v.name], wantd) and d[v.name] != wantd:
                    fail('transform_solution-not-the-decoded-slice', f"{v.name} ({type(v).__name__}): {d[v.name]!r} "
                         f"expected {wantd!r} for position {r}")
                    break
                if v.has_children() and not isinstance(d[v.name], list):
                    fail('transform_solution-multi-variable-not-a-list', f"{v.name}: {d[v.name]!r}")
                    break
            continue
        break


class _Collect:
    def __init__(self):
        self.items = []

    def finding(self, key, detail, replay):
        self.items.append((key, detail, replay))


def _work(args):
    combos, cap = args
    col = _Collect()
    cx = {'rep': col, 'n': 0, 'capped': 0}
    for combo in combos:
        check_task(cx, combo, cap)
    return cx['n'], cx['capped'], col.items, len(combos)


def run(rep, tier):
    from .. import explore
    max_len = 3
    kinds = KINDS
    cap = 4 if tier == 'quick' else 5
    combos = [c for n in range(1, max_len + 1) for c in itertools.product(kinds, repeat=n)]
    chunks = [(combos[i::48], cap) for i in range(48)]
    n = capped = n_tasks = 0
    for cn, cc, items, nt in explore.pool().imap_unordered(_work, chunks):
        n += cn
        capped += cc
        n_tasks += nt
        for key, detail, rp in items:
            rep.finding(key, detail, rp)
    cx = {'n': n, 'capped': capped}
    rep.part('task-descriptions', cx['n'], n_tasks, states=n_tasks, transitions=cx['n'],
             samples=[{'variables': ['CM2', 'D', 'B1'], 'checked': ['space_dimension', 'get_bounds', 'empty_solution x RNG answers',
                                                                    'correct_solution x 5^4 vectors', 'transform_solution']}],
             rule=f"every variable list of length 1..{max_len} over the prototypes {kinds}; per task: dimension, bounds, "
                  f"random solutions under every RNG answer, correction of all vectors over a 5-value per-coordinate "
                  f"alphabet (full product for dimension <= {cap}, else one coordinate varied at a time: "
                  f"{cx['capped']} tasks capped), decoding of every corrected vector; distinct = tasks",
             tasks=n_tasks, capped_tasks=cx['capped'])
    rep.exhaustive = cx['capped'] == 0
    rep.assume("variables carry unique names", "per-coordinate value alphabet {below, lower, inside, upper, above}")


def replay(case):
    from ..report import Reporter
    rep = Reporter('C14', 'quick')
    cx = {'rep': rep, 'n': 0, 'capped': 0}
    check_task(cx, tuple(case['variables']), 4)
    return rep.findings

"""C13 - variable types obey their domain laws.  E3: bounded-exhaustive enumeration of variable definitions and
candidate values against the domain laws (membership, identity on members, idempotence, decode consistency,
rejection of invalid definitions) and of randomize() under every answer of the RNG menu."""
import itertools
import math
import numbers

import numpy as np
from pydantic import ValidationError

from pyvolutionary import (
    ContinuousVariable, ContinuousMultiVariable, MultiObjectiveVariable, DiscreteVariable, DiscreteMultiVariable,
    BinaryVariable, PermutationVariable,
)

from .. import seams
from ..seams import CTL

BOUNDS = [-1e9, -1.0, 0.0, 1e-9, 1.0, 1e9]


class Ctx:
    def __init__(self, rep):
        self.rep = rep
        self.n = 0
        self.distinct = set()
        self.samples = []

    def fail(self, what, why, case):
        self.rep.finding(f"C13|{what}|{why}", f"{case}", {'kind': 'e3', 'module': 'c13', 'case': {'what': what}})


def is_real(x):
    return isinstance(x, numbers.Real) and not isinstance(x, bool)


def cont_candidates(lb, ub):
    mid = lb + (ub - lb) / 2
    c = [lb - 1e9, math.nextafter(lb, -math.inf), lb, mid, ub, math.nextafter(ub, math.inf), math.inf, -math.inf,
         1e308, -1e308, int(max(min(mid, 2 ** 40), -2 ** 40)), np.float64(mid), np.int64(int(max(min(mid, 2 ** 40), -2 ** 40))),
         np.float32(mid), np.float32(lb), np.float32(ub), np.float32(2.0), np.float32(-0.7)]
    return c


def check_continuous_scalar(cx, v, lb, ub, what='ContinuousVariable'):
    for x in cont_candidates(lb, ub):
        cx.n += 1
        case = {'bounds': [lb, ub], 'candidate': repr(x)}
        try:
            r = v.correct(x)
        except Exception as e:
            cx.fail(what, 'correct-raises', dict(case, exc=repr(e)))
            continue
        if not isinstance(r, float) or math.isnan(r) or not (lb <= r <= ub):
            cx.fail(what, 'correct-outside-domain', dict(case, result=repr(r)))
            continue
        if math.isfinite(float(x)) and lb <= float(x) <= ub and r != float(x):
            cx.fail(what, 'correct-moves-a-member', dict(case, result=repr(r)))
        if v.correct(r) != r:
            cx.fail(what, 'correct-not-idempotent', dict(case, result=repr(r)))
        if v.decode(r) != r:
            cx.fail(what, 'decode-changes-value', dict(case, result=repr(r)))


def run_continuous(cx):
    for lb, ub in itertools.product(BOUNDS, repeat=2):
        cx.distinct.add(('C', lb, ub))
        try:
            v = ContinuousVariable(name='a', lower_bound=lb, upper_bound=ub)
        except ValidationError:
            if ub > lb:
                cx.fail('ContinuousVariable', 'valid-definition-rejected', {'bounds': [lb, ub]})
            cx.n += 1
            continue
        if ub <= lb:
            cx.fail('ContinuousVariable', 'invalid-definition-accepted', {'bounds': [lb, ub]})
            cx.n += 1
            continue
        if v.get_bounds() != (lb, ub) or v.size() != 1:
            cx.fail('ContinuousVariable', 'get_bounds', {'bounds': [lb, ub]})
        check_continuous_scalar(cx, v, lb, ub)
    cx.samples.append({'type': 'ContinuousVariable', 'bounds': [1e-9, 1.0],
                       'candidates': [repr(c) for c in cont_candidates(1e-9, 1.0)][:8]})


def run_multi(cx, cls, max_len):
    what = cls.__name__
    pairs = list(itertools.product(BOUNDS, repeat=2))
    for n in range(1, max_len + 1):
        # all bound vectors over a reduced alphabet for n = 3 to keep the product finite and small
        alpha = pairs if n == 1 else [(a, b) for a, b in pairs if a in (-1.0, 0.0, 1e9) and b in (0.0, 1.0, 1e9)]
        for combo in itertools.product(alpha, repeat=n):
            lbs, ubs = [c[0] for c in combo], [c[1] for c in combo]
            valid = all(u > l for l, u in combo)
            cx.n += 1
            cx.distinct.add((what, tuple(combo)))
            try:
                v = cls(name='m', lower_bounds=lbs, upper_bounds=ubs)
            except ValidationError:
                if valid:
                    cx.fail(what, 'valid-definition-rejected', {'lbs': lbs, 'ubs': ubs})
                continue
            if not valid:
                cx.fail(what, 'invalid-definition-accepted', {'lbs': lbs, 'ubs': ubs})
                continue
            if v.size() != n or len(v.get()) != n:
                cx.fail(what, 'size', {'lbs': lbs, 'ubs': ubs})
            gl, gu = v.get_bounds()
            if list(gl) != lbs or list(gu) != ubs:
                cx.fail(what, 'get_bounds', {'lbs': lbs, 'ubs': ubs})
            # candidate vectors: every coordinate below / on lower / inside / on upper / above, jointly
            per = [[l - 1.0, l, l + (u - l) / 2, u, u + 1.0, np.float32(l + (u - l) / 3)] for l, u in combo]
            for vec in itertools.product(*per):
                r = v.correct(list(vec))
                if len(r) != n or any(not isinstance(x, float) or not (l <= x <= u) for x, (l, u) in zip(r, combo)):
                    cx.fail(what, 'correct-outside-domain', {'lbs': lbs, 'ubs': ubs, 'vec': repr(vec), 'r': repr(r)})
                    break
                if any(l <= float(x) <= u and y != float(x) for x, y, (l, u) in zip(vec, r, combo)):
                    cx.fail(what, 'correct-moves-a-member', {'lbs': lbs, 'ubs': ubs, 'vec': repr(vec), 'r': repr(r)})
                    break
                if v.correct(r) != r or v.decode(r) != r:
                    cx.fail(what, 'correct-not-idempotent', {'lbs': lbs, 'ubs': ubs, 'vec': repr(vec)})
                    break
                cx.n += 1
        # length mismatch
        for la, lb_ in ((n, n + 1), (n + 1, n), (n, 0), (0, n), (n + 2, 1), (1, n + 2)):
            try:
                cls(name='m', lower_bounds=[0.0] * la, upper_bounds=[1.0] * lb_)
                cx.fail(what, 'length-mismatch-accepted', {'n_lower': la, 'n_upper': lb_})
            except ValidationError:
                pass
            cx.n += 1


CHOICE_ALPHA = [0, 1, 'a', 2.5, None, (1, 2)]


def disc_candidates(n):
    return [-math.inf, -1, -0.5, 0, 0.4, 0.5, 0.6, n - 1, n - 0.5, n, math.inf, 1e308, np.int64(n - 1), np.float64(n - 1),
            np.float64(0.999999), np.int64(0), np.float32(n - 0.5), n + 5, -1e308]


def check_discrete(cx, v, choices, what='DiscreteVariable'):
    n = len(choices)
    if v.get_bounds() != (0, n - 1) or v.size() != 1:
        cx.fail(what, 'get_bounds', {'choices': repr(choices)})
    for x in disc_candidates(n):
        cx.n += 1
        case = {'choices': repr(choices), 'candidate': repr(x)}
        try:
            r = v.correct(x)
        except Exception as e:
            cx.fail(what, 'correct-raises', dict(case, exc=repr(e)))
            continue
        if isinstance(r, bool) or not isinstance(r, numbers.Integral) or not (0 <= r < n):
            cx.fail(what, 'correct-outside-domain', dict(case, result=repr(r)))
            continue
        if isinstance(x, numbers.Integral) and 0 <= x < n and r != x:
            cx.fail(what, 'correct-moves-a-member', dict(case, result=repr(r)))
        if v.correct(r) != r:
            cx.fail(what, 'correct-not-idempotent', dict(case, result=repr(r)))
        try:
            d = v.decode(r)
            if not (d is choices[r] or d == choices[r]):
                cx.fail(what, 'decode-not-the-indexed-choice', dict(case, result=repr(d)))
        except Exception as e:
            cx.fail(what, 'decode-raises', dict(case, exc=repr(e)))


def run_discrete(cx, max_len):
    for n in range(1, max_len + 1):
        for choices in itertools.product(CHOICE_ALPHA, repeat=n):
            choices = list(choices)
            cx.distinct.add(('D', repr(choices)))
            v = DiscreteVariable(name='d', choices=choices)
            check_discrete(cx, v, choices)
    cx.samples.append({'type': 'DiscreteVariable', 'choices': [0, 'a', None], 'candidates': [repr(c) for c in disc_candidates(3)][:10]})
    # DiscreteMultiVariable: every list of 1..3 choice lists of sizes 1..3
    lists = [['x'], [0, 1], ['p', 'q', 'r']]
    for k in range(1, 4):
        for combo in itertools.product(lists, repeat=k):
            v = DiscreteMultiVariable(name='m', choices=[list(c) for c in combo])
            cx.distinct.add(('DM', repr(combo)))
            if v.size() != k or len(v.get()) != k:
                cx.fail('DiscreteMultiVariable', 'size', {'choices': repr(combo)})
            for child, ch in zip(v.get(), combo):
                check_discrete(cx, child, list(ch), 'DiscreteMultiVariable.child')
            per = [[-1, 0, 0.6, len(c) - 1, len(c), 1e9] for c in combo]
            for vec in itertools.product(*per):
                cx.n += 1
                r = v.correct(list(vec))
                if len(r) != k or any(isinstance(x, bool) or not isinstance(x, numbers.Integral) or not 0 <= x < len(c)
                                      for x, c in zip(r, combo)):
                    cx.fail('DiscreteMultiVariable', 'correct-outside-domain', {'choices': repr(combo), 'vec': repr(vec)})
                    break
                if v.correct(r) != r:
                    cx.fail('DiscreteMultiVariable', 'correct-not-idempotent', {'choices': repr(combo), 'vec': repr(vec)})
                    break
                d = v.decode(r)
                if d != [c[i] for c, i in zip(combo, r)]:
                    cx.fail('DiscreteMultiVariable', 'decode-not-the-indexed-choice', {'choices': repr(combo), 'r': r})
                    break


def run_binary(cx):
    for k in range(-1, 4):
        cx.n += 1
        cx.distinct.add(('B', k))
        try:
            v = BinaryVariable(name='b', n_vars=k)
        except ValidationError:
            if k > 0:
                cx.fail('BinaryVariable', 'valid-definition-rejected', {'n_vars': k})
            continue
        if k <= 0:
            cx.fail('BinaryVariable', 'invalid-definition-accepted', {'n_vars': k})
            continue
        if v.size() != k or len(v.get()) != k:
            cx.fail('BinaryVariable', 'size', {'n_vars': k})
        for vec in itertools.product([-1, 0, 0.5, 1, 1.5, 2, 7.0, np.float64(1.9999999)], repeat=k):
            cx.n += 1
            r = v.correct(list(vec))
            if len(r) != k or any(isinstance(x, bool) or not isinstance(x, numbers.Integral) or x not in (0, 1) for x in r):
                cx.fail('BinaryVariable', 'correct-outside-domain', {'n_vars': k, 'vec': repr(vec), 'r': repr(r)})
                break
            if any(x in (0, 1) and y != x for x, y in zip(vec, r)):
                cx.fail('BinaryVariable', 'correct-moves-a-member', {'n_vars': k, 'vec': repr(vec), 'r': repr(r)})
                break
            if v.correct(r) != r or v.decode(r) != r:
                cx.fail('BinaryVariable', 'correct-not-idempotent', {'n_vars': k, 'vec': repr(vec)})
                break


PERM_ITEMS = {
    1: [[7], ['a'], [2.5]],
    2: [[3, 1], ['b', 'a'], [1, 'a'], [0.5, 2]],
    3: [[3, 1, 2], ['c', 'a', 'b'], [2, 'x', 1], [0.5, 1.5, 1]],
    4: [[3, 1, 4, 2], ['d', 'a', 'c', 'b'], [1, 'a', 2, 'b'], [0.5, 4, 2.5, 1]],
}
PERM_VALUES = [-1, 0, 0.5, 1, 2, 3]


def run_permutation(cx, max_len):
    for n in range(1, max_len + 1):
        for items in PERM_ITEMS[n]:
            cx.distinct.add(('P', repr(items)))
            v = PermutationVariable(name='p', items=items)
            ident = list(range(n))
            try:
                lab = v.decode(ident)
            except Exception as e:
                cx.fail('PermutationVariable', 'decode-raises', {'items': repr(items), 'exc': repr(e)})
                continue
            if sorted(map(repr, lab)) != sorted(map(repr, items)):
                cx.fail('PermutationVariable', 'decode-identity-not-a-rearrangement', {'items': repr(items), 'decoded': repr(lab)})
            for vec in itertools.product(PERM_VALUES, repeat=n):
                cx.n += 1
                case = {'items': repr(items), 'value': list(vec)}
                for form in (list(vec), np.array(vec, dtype=float), tuple(vec), np.array(vec)):
                    r = v.correct(form)
                    if not isinstance(r, list) or sorted(r) != ident or any(isinstance(x, bool) or not isinstance(x, numbers.Integral) for x in r):
                        cx.fail('PermutationVariable', 'correct-not-a-permutation', dict(case, result=repr(r)))
                        break
                    if sorted(vec) == ident and len(set(vec)) == n and r != [int(x) for x in vec]:
                        cx.fail('PermutationVariable', 'correct-moves-a-member', dict(case, result=repr(r)))
                        break
                    if v.correct(r) != r:
                        cx.fail('PermutationVariable', 'correct-not-idempotent', dict(case, result=repr(r)))
                        break
                    d = v.decode(form)
                    if d != [lab[i] for i in r]:
                        cx.fail('PermutationVariable', 'decode-inconsistent-with-correct', dict(case, decoded=repr(d), corrected=repr(r)))
                        break
                    if sorted(map(repr, d)) != sorted(map(repr, items)):
                        cx.fail('PermutationVariable', 'decode-not-a-rearrangement', dict(case, decoded=repr(d)))
                        break
            # the same list object, edited in place between two calls, must decode / correct like a fresh value
            for perm in itertools.permutations(range(n)):
                if n < 2:
                    break
                x = list(perm)
                v.decode(x)
                v.correct(x)
                x[0], x[1] = x[1], x[0]
                cx.n += 1
                if v.decode(x) != v.decode(list(x)) or v.correct(x) != list(x):
                    cx.fail('PermutationVariable', 'decode-or-correct-depends-on-earlier-calls',
                            {'items': repr(items), 'value': x})
                    break
                arr = np.array(perm)
                v.decode(arr)
                arr[[0, 1]] = arr[[1, 0]]
                if v.decode(arr) != v.decode(arr.tolist()):
                    cx.fail('PermutationVariable', 'decode-or-correct-depends-on-earlier-calls',
                            {'items': repr(items), 'value': arr.tolist()})
                    break
    cx.samples.append({'type': 'PermutationVariable', 'items': [3, 1, 4, 2], 'values': 'all 6^4 vectors over ' + str(PERM_VALUES)})


def member(v, x):
    if isinstance(v, ContinuousVariable):
        return is_real(x) and v.lower_bound <= float(x) <= v.upper_bound
    if isinstance(v, DiscreteVariable):
        return isinstance(x, numbers.Integral) and not isinstance(x, bool) and 0 <= x < len(v.choices)
    if isinstance(v, PermutationVariable):
        return sorted(int(e) for e in x) == list(range(len(v.items)))
    return len(x) == v.size() and all(member(c, e) for c, e in zip(v.get(), x))


def run_randomize(cx):
    protos = [
        ContinuousVariable(name='a', lower_bound=-1e9, upper_bound=1e-9),
        ContinuousVariable(name='a', lower_bound=1e6, upper_bound=1e6 + 1),
        ContinuousMultiVariable(name='m', lower_bounds=[0, -5, 1e-3], upper_bounds=[10, 0, 2e-3]),
        MultiObjectiveVariable(name='o', lower_bounds=(-2, 0), upper_bounds=(3, 5)),
        DiscreteVariable(name='d', choices=['p']), DiscreteVariable(name='d', choices=[0, 'a', None, 2.5]),
        DiscreteMultiVariable(name='dm', choices=[[1, 2, 3], ['u'], [0.5, 1.5]]),
        BinaryVariable(name='b', n_vars=3), PermutationVariable(name='p', items=[3, 1, 4, 2]),
        PermutationVariable(name='p', items=['x']),
    ]
    seams.install()
    try:
        for v in protos:
            CTL.reset({}, 11)
            v.randomize()
            npts = len(CTL.trace)
            devs = [{}] + [{i: a} for i in range(npts) for a in (1, 2, 3)]
            for dev in devs:
                CTL.reset(dev, 11, menu3=True)
                x = v.randomize()
                cx.n += 1
                cx.distinct.add((type(v).__name__, repr(v), tuple(dev.items())))
                if not member(v, x if not isinstance(x, np.generic) else x.item() if not isinstance(x, np.integer) else x):
                    cx.fail(type(v).__name__, 'randomize-outside-domain', {'variable': repr(v), 'answer': dev, 'value': repr(x)})
    finally:
        CTL.active = False
        seams.uninstall()


def run(rep, tier):
    cx = Ctx(rep)
    thorough = tier == 'thorough'
    run_continuous(cx)
    run_multi(cx, ContinuousMultiVariable, 3 if thorough else 2)
    run_multi(cx, MultiObjectiveVariable, 3 if thorough else 2)
    run_discrete(cx, 4 if thorough else 3)
    run_binary(cx)
    run_permutation(cx, 4)
    run_randomize(cx)
    rep.part('variable-laws', cx.n, len(cx.distinct), states=cx.n, transitions=cx.n, samples=cx.samples,
             rule="every variable definition over the bound / choice / item alphabets x every candidate value of the "
                  "candidate alphabets through correct / decode / get_bounds / constructor, and randomize() under every "
                  "RNG answer; distinct = distinct variable definitions (and RNG answers)")
    rep.assume("NaN is not a finite input; candidate alphabets as listed in mc/props/c13.py",
               "permutation items are distinct hashables of ints / strings / mixed / floats")


def replay(case):
    from ..report import Reporter
    rep = Reporter('C13', 'quick')
    run(rep, 'quick')
    return rep.findings

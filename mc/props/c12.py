"""C12 - maximising f is exactly minimising -f.  Pairs of executions under the same choice list (E1, relational)."""
from .. import explore, registry, sweep
from ..report import seed as env_seed
from ..sweep import _scn

PROTOS_D0 = ['cont3z', 'scales4', 'mixed3', 'mo2', 'perm4', 'cont2s', 'far2']


def jobs(tier, s0):
    names = [n for n in registry.NAMES if n not in registry.FITNESS_READERS]
    out = []
    for n in names:
        for proto in PROTOS_D0:
            for sd in (s0, s0 + 1):
                for obj in (('quad',) if tier == 'quick' else ('quad', 'plateau', 'multi')):
                    out.append((_scn(n, proto, cycles=3, seed=sd, runner='c12', obj=obj), {'d': 0}))
        out.append((_scn(n, 'cont3z', cycles=2, seed=s0, runner='c12'),
                    {'d': 1, 'range': 'init' if tier == 'quick' else 'all'}))
        if tier == 'quick':
            # scalar draws of the first cycle (branch deciders): the rarely taken side of every `if random() < p`
            out.append((_scn(n, 'cont3z', cycles=2, seed=s0 + 1, runner='c12'),
                        {'d': 1, 'range': 'first', 'kinds': ('scalar',)}))
        # scores on a denormal scale
        out.append((_scn(n, 'cont3z', cycles=2, seed=s0, runner='c12', obj='denorm'), {'d': 0}))
        # longer runs (states that take several generations to appear, e.g. recovered / aged / exhausted agents)
        for sd in range(s0, s0 + (4 if tier == 'quick' else 8)):
            out.append((_scn(n, 'cont3z', cycles=12, seed=sd, runner='c12'), {'d': 0}))
        # every accepted one-parameter deviation of an algorithm parameter (rarely used strategies / branches)
        for f, v in registry.param_deviations(n):
            out.append((_scn(n, 'cont3z', cycles=3, seed=s0, runner='c12', over={f: v}), {'d': 0}))
        if tier != 'quick':
            for proto in ('mixed3', 'mo2'):
                out.append((_scn(n, proto, cycles=2, seed=s0, runner='c12'), {'d': 1, 'range': 'first'}))
    return out


def run(rep, tier):
    s0 = env_seed()

    def compute():
        j = explore.run_jobs(jobs(tier, s0), mon_names=[]).to_json()
        return j
    j = sweep.memo_get('c12', tier, s0, compute)
    rep.add_acc_findings(j)
    rep.add_acc_coverage('max-vs-min-pairs', j,
                         "pairs of executions (max f) / (min -f) of the real optimize() under the same choice list; "
                         "oracle: identical positions generation by generation, costs exact negatives; 83 optimizers "
                         "(Ant Lion reads Agent.fitness)", memo_hit=j.get('memo_hit'), pairs=j['execs'])
    rep.cov['evaluations'] += j['execs']     # every case is two executions
    rep.assume("exemption list fixed from the source: Ant Lion is the only optimizer whose update rule reads "
               "Agent.fitness", "configurations with fitness_error=None (stop by cycle count)")

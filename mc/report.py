"""Verdicts, replay artefacts, known findings and evidence files (DESIGN 2.7, 7)."""
import hashlib
import json
import os
import sys
import time

VERIF = os.path.dirname(os.path.dirname(os.path.abspath(__file__)))
KNOWN_FILE = os.path.join(VERIF, 'known_findings.json')


def seed():
    try:
        return int(os.environ.get('VERIF_SEED', '0'))
    except ValueError:
        return 0


def load_known():
    if not os.path.exists(KNOWN_FILE):
        return {}
    data = json.load(open(KNOWN_FILE))
    return {e['key']: e for e in data.get('known', [])}


class Reporter:
    def __init__(self, prop, tier):
        self.prop = prop
        self.tier = tier
        self.seed = seed()
        self.t0 = time.time()
        self.findings = {}       # key -> dict(detail, replay payload)
        self.cov = {'evaluations': 0, 'distinct_nontrivial': 0, 'states': 0, 'transitions': 0,
                    'traces_validated_against_impl': 0, 'samples': [], 'parts': {}}
        self.rules = []
        self.assumptions = []
        self.exhaustive = True
        self.harness_errors = []
        self.known = load_known()

    # -- findings
    def finding(self, key, detail, replay):
        if key not in self.findings:
            self.findings[key] = {'key': key, 'detail': detail, 'replay': replay, 'count': 1}
        else:
            self.findings[key]['count'] += 1

    def add_acc_findings(self, acc_json, prop=None):
        prop = prop or self.prop
        for f in acc_json['findings']:
            if f['prop'] != prop:
                continue
            self.finding(f['key'], f['detail'], {'kind': 'e1', 'scn': f['scn'], 'dev': f['dev'],
                                                 'expect': {str(k): v for k, v in f.get('expect', {}).items()},
                                                 'key': f['key']})
            self.findings[f['key']]['count'] = f.get('count', 1)

    # -- coverage
    def part(self, name, evaluations, distinct, states=0, transitions=0, validated=0, samples=(), rule='', **extra):
        self.cov['evaluations'] += int(evaluations)
        self.cov['distinct_nontrivial'] += int(distinct)
        self.cov['states'] += int(states)
        self.cov['transitions'] += int(transitions)
        self.cov['traces_validated_against_impl'] += int(validated)
        for s in samples:
            if len(self.cov['samples']) < 8:
                self.cov['samples'].append(s)
        d = {'evaluations': int(evaluations), 'distinct_nontrivial': int(distinct), 'states': int(states),
             'transitions': int(transitions)}
        d.update(extra)
        self.cov['parts'][name] = d
        if rule:
            self.rules.append(f"[{name}] {rule}")

    def add_acc_coverage(self, name, j, rule, **extra):
        self.part(name, j['execs'], j['ends_dev'] if j['max_d'] else j['ends'], states=j['states'],
                  transitions=j['transitions'], validated=j['execs'], samples=j['samples'][:3], rule=rule,
                  choice_points=j['points'], deviation_bound_completed=j['max_d'], deviations_applied=j['taken'],
                  distinct_end_results=j['ends'], cpu_s=j['cpu_s'], **extra)
        for e in j.get('errors', []):
            self.harness_errors.append(e)

    def assume(self, *a):
        self.assumptions.extend(a)

    # -- finish
    def finish(self):
        rc = 0
        known_seen, violations = [], []
        for key, f in sorted(self.findings.items()):
            if key in self.known:
                known_seen.append(key)
                print(f"KNOWN-FINDING: property={self.prop} {key} {self.known[key].get('what', '')}"
                      f" [{f['count']} explored cases]")
            else:
                violations.append(f)
        d = os.path.join(VERIF, 'replays', self.prop)
        if os.path.isdir(d):
            for old in os.listdir(d):
                os.remove(os.path.join(d, old))
        for f in violations:
            path = write_replay(self.prop, f)
            print(f"VIOLATION property={self.prop} replay={path}")
            print(f"  what: {f['key']}  ({f['count']} explored cases)")
            print(f"  detail: {f['detail']}")
            rc = 1
        if self.harness_errors:
            for e in self.harness_errors[:10]:
                print(f"HARNESS-ERROR: {e}")
            rc = 2 if rc == 0 else rc
        cov = dict(self.cov)
        cov['rule'] = ' || '.join(self.rules)
        cov['exhaustive'] = bool(self.exhaustive)
        cov['known_findings_seen'] = known_seen
        if cov['states'] == 0:
            cov['states'] = max(1, cov['evaluations'])
        if cov['transitions'] == 0:
            cov['transitions'] = max(1, cov['evaluations'])
        if not cov['samples']:
            cov['samples'] = [{'note': 'no sample recorded'}]
        ev = {'property_id': self.prop, 'tier': self.tier, 'seed': self.seed, 'level': 'model_checking',
              'coverage': cov, 'assumptions': self.assumptions, 'wall_s': round(time.time() - self.t0, 2),
              'violations': len(violations)}
        os.makedirs(os.path.join(VERIF, 'evidence'), exist_ok=True)
        tmp = os.path.join(VERIF, 'evidence', f'.{self.prop}.json.tmp')
        with open(tmp, 'w') as fh:
            json.dump(ev, fh, indent=1, default=_default, sort_keys=True)
        os.replace(tmp, os.path.join(VERIF, 'evidence', f'{self.prop}.json'))
        print(f"{self.prop} [{self.tier}] evaluations={cov['evaluations']} distinct_nontrivial="
              f"{cov['distinct_nontrivial']} states={cov['states']} transitions={cov['transitions']} "
              f"violations={len(violations)} known={len(known_seen)} wall={ev['wall_s']}s")
        return rc


def _default(o):
    try:
        import numpy as np
        if isinstance(o, np.generic):
            return o.item()
        if isinstance(o, np.ndarray):
            return o.tolist()
    except Exception:
        pass
    return repr(o)


def write_replay(prop, f):
    d = os.path.join(VERIF, 'replays', prop)
    os.makedirs(d, exist_ok=True)
    h = hashlib.sha256(f['key'].encode()).hexdigest()[:12]
    path = os.path.join(d, f'{h}.json')
    payload = dict(f['replay'])
    payload.update(property=prop, key=f['key'], detail=f['detail'])
    with open(path, 'w') as fh:
        json.dump(payload, fh, indent=1, default=_default)
    return path

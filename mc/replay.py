"""python -m mc.replay <file> : rebuild one recorded violation WITHOUT the explorer and re-evaluate its monitor.
Exit 1 if the violation reproduces (twice, with identical observations), 0 if it does not, 2 on harness trouble."""
import importlib
import json
import sys

from . import harness, monitors
from .seams import HarnessError


def replay_e1(p):
    scn = p['scn']
    dev = {int(i): a for i, a in p['dev']}
    expect = {int(k): v for k, v in p.get('expect', {}).items()}
    obs = []
    for _ in range(2):
        if scn.get('runner'):
            from . import runners
            ex, finds = runners.RUNNERS[scn['runner']](scn, dev, expect, monitors.SWEEP_MONITORS)
        else:
            ex = harness.run_execution(scn, dev, expect=expect)
            finds = monitors.run_monitors(ex)
        obs.append((sorted(k for _, k, _ in finds), harness.h8(harness.canon_result(ex.result)), repr(ex.exc)))
    if obs[0] != obs[1]:
        print("HARNESS-ERROR: two replays of the same choice list differ", obs)
        return 2
    keys = obs[0][0]
    print(f"scenario {scn}\nchoice list {sorted(dev.items())}\nfindings {keys}")
    return 1 if any(p['key'].endswith(k) for k in keys) else 0


def main(argv=None):
    argv = argv or sys.argv[1:]
    p = json.load(open(argv[0]))
    try:
        if p.get('kind') == 'e1':
            rc = replay_e1(p)
        else:
            mod = importlib.import_module(f"mc.props.{p['module']}")
            found = mod.replay(p['case'])
            print(f"case {p['case']}\nfindings {sorted(found)}")
            rc = 1 if p['key'] in found else 0
    except HarnessError as e:
        print(f"HARNESS-ERROR: {e}")
        return 2
    print("REPRODUCED" if rc == 1 else "not reproduced")
    return rc


if __name__ == '__main__':
    sys.exit(main())

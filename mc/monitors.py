"""Per-execution monitors.  Each returns a list of findings (property, key, detail).  A *key* identifies what fails,
not the execution (DESIGN 2.7)."""
import math

import numpy as np

from . import registry, tasks
from .elitist import is_elitist_under
from .harness import canon_num, msg_token

REL = 1e-12


def _close(a, b, rel=REL):
    try:
        a, b = float(a), float(b)
    except Exception:
        return False
    if math.isnan(a) or math.isnan(b):
        return math.isnan(a) and math.isnan(b)
    if a == b:
        return True
    return abs(a - b) <= rel * max(1.0, abs(a), abs(b))


def _same(a, b):
    a, b = float(a), float(b)
    return a == b or (math.isnan(a) and math.isnan(b))


def ref_fitness(c):
    # documented function of the (user-sign) cost
    return 1.0 / (1.0 + c) if c >= 0 else 1.0 + abs(c)


def _agents(res):
    for k, g in enumerate(res.evolution):
        for j, a in enumerate(g.agents):
            yield (k, j, a)
    if res.best_solution is not None:
        yield ('best', 0, res.best_solution)


def _better(a, b, minmax):
    return a < b if str(minmax) == 'min' else a > b


def encoding_tag(ex):
    p = ex.scn['proto']
    return p if p in tasks.INTEGER else 'continuous'


# ---------------------------------------------------------------------------------------------------------------
def m_c01(ex):
    if ex.result is None:
        return []
    out, seen = [], set()
    for k, j, a in _agents(ex.result):
        pr = tasks.position_problem(ex.space, a.position)
        if pr is not None and pr[0] not in seen:
            seen.add(pr[0])
            out.append(('C01', f"C01|{ex.scn['opt']}|{pr[0]}",
                        f"generation {k} agent {j} coordinate {pr[1]} position {a.position!r:.200}"))
    return out


def m_c02(ex):
    if ex.result is None:
        return []
    out, seen = [], set()
    t = ex.task
    for k, j, a in _agents(ex.result):
        if tasks.position_problem(ex.space, a.position) is not None:
            continue   # C01's business; the objective is not defined there
        uc = tasks.user_cost(t, a.position)
        if not _close(uc, a.cost) and 'cost' not in seen:
            seen.add('cost')
            out.append(('C02', f"C02|{ex.scn['opt']}|cost-mismatch",
                        f"generation {k} agent {j}: reported cost {a.cost!r}, objective at reported position {uc!r}, "
                        f"position {a.position!r:.160}"))
        if not (isinstance(a.cost, float) and math.isnan(a.cost)):
            rf = ref_fitness(a.cost)
            if not _close(rf, a.fitness) and 'fit' not in seen:
                seen.add('fit')
                out.append(('C02', f"C02|{ex.scn['opt']}|fitness-mismatch",
                            f"generation {k} agent {j}: cost {a.cost!r} fitness {a.fitness!r} expected {rf!r}"))
    return out


def m_c03(ex):
    res = ex.result
    if res is None or not res.evolution:
        return []
    b, last, mm = res.best_solution, res.evolution[-1].agents, ex.scn.get('minmax', 'min')
    out = []
    if b is None:
        return [('C03', f"C03|{ex.scn['opt']}|no-best", 'best_solution is None')]
    member = any(canon_num(a.position) == canon_num(b.position) and canon_num(a.cost) == canon_num(b.cost)
                 for a in last)
    if not member:
        out.append(('C03', f"C03|{ex.scn['opt']}|best-not-in-last-generation",
                    f"best {b.position!r:.120} cost {b.cost!r}"))
    better = [a for a in last if _better(a.cost, b.cost, mm)]
    if better:
        out.append(('C03', f"C03|{ex.scn['opt']}|best-not-optimal|{mm}",
                    f"best cost {b.cost!r}; last generation holds {better[0].cost!r}"))
    return out


def ref_should_stop(k, rates, max_cycles, fitness_error, early):
    """the stop rule as *stated* (C04): k = number of executed cycles, rates = r_1..r_k"""
    stop = k >= max_cycles
    if fitness_error is not None and rates[k - 1] <= fitness_error:
        stop = True
    if early is not None:
        patience, min_delta = early
        diffs = [rates[0] - 0.0] + [rates[i] - rates[i - 1] for i in range(1, k)]
        last = diffs[-patience:]
        if all(d < 0 and abs(d) < min_delta for d in last):
            stop = True
    return stop


def m_c04(ex):
    res = ex.result
    if res is None:
        if ex.exc is not None and ex.exc[0] == 'TimeoutError' and 'execution cut' in ex.exc[3]:
            return [('C04', f"C04|{ex.scn['opt']}|does-not-terminate", f"{ex.exc[3]} in {ex.exc[1]} ({ex.exc[2]}) after "
                     f"{ex.steps} cycles, max_cycles={ex.cfg_before.get('max_cycles') if ex.cfg_before else '?'}")]
        return []
    out, o = [], ex.scn['opt']
    if len(res.evolution) != ex.steps + 1:
        out.append(('C04', f"C04|{o}|generations-vs-cycles", f"{len(res.evolution)} generations, {ex.steps} cycles"))
    if len(res.rates) != ex.steps:
        out.append(('C04', f"C04|{o}|rates-vs-cycles", f"{len(res.rates)} rates, {ex.steps} cycles"))
        return out
    cfg = ex.config
    if ex.steps > cfg.max_cycles:
        out.append(('C04', f"C04|{o}|more-than-max-cycles", f"{ex.steps} > {cfg.max_cycles}"))
    rates = [float(r) for r in res.rates]
    if any(math.isnan(r) or math.isinf(r) for r in rates):
        return out   # NaN costs: C05 reports the cause
    for k, g in enumerate(res.evolution[1:], start=1):
        fits = [a.fitness for a in g.agents]
        if not fits:
            continue
        want = abs(1 - float(np.average(fits)))
        if not _close(want, rates[k - 1], 1e-9):
            out.append(('C04', f"C04|{o}|rate-not-mean-fitness", f"cycle {k}: rate {rates[k-1]!r} expected {want!r}"))
            break
    early = None
    if cfg.early_stopping is not None:
        early = (cfg.early_stopping.patience, cfg.early_stopping.min_delta)
    n = len(rates)
    for k in range(1, n + 1):
        s = ref_should_stop(k, rates, cfg.max_cycles, cfg.fitness_error, early)
        if k < n and s:
            out.append(('C04', f"C04|{o}|stopped-late", f"criterion held at cycle {k}, ran {n}; rates {rates}"))
            break
        if k == n and not s:
            out.append(('C04', f"C04|{o}|stopped-early", f"no criterion holds at cycle {k}; rates {rates}"))
    return out


def m_c05(ex):
    out, seen = [], set()
    for reason, coord, arg in ex.obj['bad']:
        if reason in seen:
            continue
        seen.add(reason)
        out.append(('C05', f"C05|{ex.scn['opt']}|{reason}", f"coordinate {coord} argument {arg}"))
    return out


def c06_key(ex):
    t, fn, where, msg = ex.exc
    who = ex.scn['opt']
    if where.startswith('abstract.py') and fn in ('__should_stop__', '__error_check__'):
        who = 'OptimizationAbstract'       # base-class stop rule: the optimizer is irrelevant
    return f"C06|{who}|{t}|{fn}|{msg_token(msg)}"


def m_c06(ex):
    if ex.scn.get('small_population'):
        return []   # below the documented scale: not claimed by C06
    if encoding_tag(ex) != 'continuous':
        return []   # integer-coded tasks are judged per (optimizer, encoding) pair on the aggregate (mc.props.c06)
    if ex.exc is not None:
        t, fn, where, msg = ex.exc
        return [('C06', c06_key(ex), f"{t} in {fn} ({where}): {msg}")]
    if ex.result is None or len(ex.result.evolution) < 2:
        return [('C06', f"C06|{ex.scn['opt']}|incomplete-result", 'fewer than 2 generations')]
    return []


def m_c07_escape(ex):
    out, seen = [], set()
    for what, site in ex.escapes:
        if (what, site) in seen:
            continue
        seen.add((what, site))
        out.append(('C07', f"C07|escape|{what}|{site}", f"{ex.scn['opt']}: {what} called from {site} during optimize()"))
    return out


def _dict_diff(a, b, prefix=''):
    if a == b:
        return []
    if isinstance(a, dict) and isinstance(b, dict):
        out = []
        for k in sorted(set(a) | set(b), key=repr):
            if k not in a or k not in b:
                out.append(f"{prefix}{k}")
            else:
                out.extend(_dict_diff(a[k], b[k], f"{prefix}{k}."))
        return out
    return [prefix.rstrip('.')]


def m_c09(ex):
    out, o = [], ex.scn['opt']
    if ex.cfg_before is None:
        return out
    for f in _dict_diff(ex.cfg_before, ex.cfg_after):
        out.append(('C09', f"C09|{o}|config.{f}", f"{f}: {_get(ex.cfg_before, f)!r} -> {_get(ex.cfg_after, f)!r}"))
    if not ex.cfg_same_object:
        out.append(('C09', f"C09|{o}|configuration-object-replaced", ''))
    tb, ta = ex.task_before, ex.task_after
    if tb != ta:
        for part in ('fields', 'variables', 'data', 'bounds'):
            if tb[part] != ta[part]:
                out.append(('C09', f"C09|{o}|task.{part}", f"{tb[part]!r:.150} -> {ta[part]!r:.150}"))
    return out


def _get(d, path):
    for p in path.split('.'):
        try:
            d = d[p]
        except Exception:
            return None
    return d


def m_c10(ex):
    res = ex.result
    if res is None:
        return []
    out, o, seen = [], ex.scn['opt'], set()
    if ex.scn.get('small_population'):
        return []
    n = ex.cfg_before['population_size']
    exact = o not in registry.VARIABLE_SIZE and not ex.scn.get('c10_bounds_only')
    if ex.scn.get('odd_population') and o in registry.REGROUPING:
        exact = False
    for k, g in enumerate(res.evolution):
        m = len(g.agents)
        kind = None
        if m == 0:
            kind = 'empty'
        elif m > n:
            kind = 'larger'
        elif exact and m != n:
            kind = 'smaller'
        if kind and kind not in seen:
            seen.add(kind)
            out.append(('C10', f"C10|{o}|generation-{kind}", f"generation {k} has {m} agents, population_size {n}"))
    return out


def m_c15_fidelity(ex):
    res = ex.result
    if res is None:
        return []
    o, mm = ex.scn['opt'], ex.scn.get('minmax', 'min')
    sign = 1.0 if mm == 'min' else -1.0
    if len(ex.snaps) != len(res.evolution):
        return [('C15', f"C15|{o}|history-length", f"{len(res.evolution)} generations recorded, "
                 f"{len(ex.snaps)} populations observed")]
    for k, (g, s) in enumerate(zip(res.evolution, ex.snaps)):
        if len(g.agents) != len(s):
            return [('C15', f"C15|{o}|history-rewritten", f"generation {k}: {len(g.agents)} agents recorded, "
                     f"{len(s)} stood after the cycle")]
        for j, (a, (p, c, f)) in enumerate(zip(g.agents, s)):
            if canon_num(a.position) != canon_num(p) or not _same(a.cost, sign * c) or not _same(a.fitness, f):
                return [('C15', f"C15|{o}|history-rewritten",
                         f"generation {k} agent {j}: recorded ({a.position!r:.100}, {a.cost!r}, {a.fitness!r}) but the "
                         f"population after cycle {k} held ({p!r:.100}, {sign * c!r}, {f!r})")]
    return []


def m_c17(ex):
    res = ex.result
    if res is None:
        return []
    o, mm = ex.scn['opt'], ex.scn.get('minmax', 'min')
    if not is_elitist_under(o, ex.cfg_before, len(ex.space)):
        return []
    costs = [[float(a.cost) for a in g.agents] for g in res.evolution]
    if any(math.isnan(c) for g in costs for c in g) or any(not g for g in costs):
        return []   # NaN costs make "better" undefined; C05 reports the cause
    pick = min if mm == 'min' else max
    bests = [pick(g) for g in costs]
    out = []
    for k in range(len(bests) - 1):
        if _better(bests[k], bests[k + 1], mm):
            out.append(('C17', f"C17|{o}|best-lost|{mm}", f"best cost {bests[k]!r} at generation {k}, "
                        f"{bests[k + 1]!r} at generation {k + 1}"))
            break
    if res.best_solution is not None and not math.isnan(res.best_solution.cost):
        if _better(pick(bests), res.best_solution.cost, mm):
            out.append(('C17', f"C17|{o}|best-solution-not-best-ever|{mm}",
                        f"best ever {pick(bests)!r}, best_solution {res.best_solution.cost!r}"))
    return out


SWEEP_MONITORS = [m_c01, m_c02, m_c03, m_c04, m_c05, m_c06, m_c07_escape, m_c09, m_c10, m_c15_fidelity, m_c17]


def run_monitors(ex, monitors=SWEEP_MONITORS):
    out = []
    for m in monitors:
        out.extend(m(ex))
    return out


# ---------------------------------------------------------------------------------------------------------------
def utils_problems(res, minmax, idxs=None, iter_sets=None):
    """C15 utilities vs a direct ranking of each recorded generation -> list of (what, detail)"""
    from pyvolutionary import utils as U
    out = []
    G = len(res.evolution)
    if G == 0:
        return out
    sizes = [len(g.agents) for g in res.evolution]
    size = min(sizes)
    if size == 0:
        return out
    if idxs is None:
        idxs = sorted({0, 1 % size, size // 2, size - 1})
    if iter_sets is None:
        iter_sets = [None] + [[i] for i in range(G)] + [[G - 1, 0]]
    rev = str(minmax) == 'max'
    # the utilities are observers: the result they are handed must stay exactly as it was (order included)
    before = [[(canon_num(a.position), canon_num(a.cost), canon_num(a.fitness)) for a in g.agents]
              for g in res.evolution]

    def ranked(i):
        return sorted((float(a.cost) for a in res.evolution[i].agents), reverse=rev)
    for its in iter_sets:
        rng = list(range(G)) if its is None else list(its)
        for idx in idxs:
            try:
                tr = U.agent_trend(res, idx, its)
                ps = U.agent_position(res, idx, its)
            except Exception as e:
                out.append(('utility-raises', f"agent_trend/position(idx={idx}, iters={its}): {type(e).__name__}: {e}"))
                continue
            if len(tr) != len(rng) or len(ps) != len(rng):
                out.append(('trend-length', f"idx={idx} iters={its}: {len(tr)} entries for {len(rng)} iterations"))
                continue
            for n, i in enumerate(rng):
                want = ranked(i)[idx]
                if not _same(tr[n], want):
                    out.append(('agent-trend', f"idx={idx} iteration {i}: {tr[n]!r}, the {idx}-th best cost in the "
                                f"task's direction ({minmax}) is {want!r}"))
                    break
                pos_ok = any(canon_num(a.position) == canon_num(ps[n]) and _same(a.cost, want)
                             for a in res.evolution[i].agents)
                if not pos_ok:
                    out.append(('agent-position', f"idx={idx} iteration {i}: position {ps[n]!r} does not belong to an "
                                f"agent of cost {want!r}"))
                    break
        if its is None and res.best_solution is not None:
            try:
                bt = U.best_agent_trend(res)
                bp = U.best_agent_position(res)
                if not _same(bt[-1], res.best_solution.cost):
                    out.append(('best-agent-trend', f"last entry {bt[-1]!r} != best_solution.cost "
                                f"{res.best_solution.cost!r}"))
                if bt != U.agent_trend(res, 0) or bp != U.agent_position(res, 0):
                    out.append(('best-agent-trend', 'best_agent_* differs from agent_*(idx=0)'))
            except Exception as e:
                out.append(('utility-raises', f"best_agent_trend: {type(e).__name__}: {e}"))
    after = [[(canon_num(a.position), canon_num(a.cost), canon_num(a.fitness)) for a in g.agents]
             for g in res.evolution]
    if after != before:
        k = next(i for i, (x, y) in enumerate(zip(before, after)) if x != y)
        out.append(('utility-alters-the-recorded-history', f"generation {k} of result.evolution changed (content or "
                    f"order) after the trend utilities were called"))
    seen, uniq = set(), []
    for w, d in out:
        if w not in seen:
            seen.add(w)
            uniq.append((w, d))
    return uniq


def m_c15_utils(ex):
    if ex.result is None or ex.dev:
        return []
    costs = [a.cost for g in ex.result.evolution for a in g.agents]
    if any(math.isnan(c) for c in costs):
        return []
    return [('C15', f"C15|utils|{w}", f"{ex.scn['opt']} ({ex.scn.get('minmax', 'min')}): {d}")
            for w, d in utils_problems(ex.result, ex.scn.get('minmax', 'min'))]


SWEEP_MONITORS.append(m_c15_utils)

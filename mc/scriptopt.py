"""E4 - ScriptOpt: a picklable test double whose populations are dictated by a script while optimize(), the stop rule,
the greedy/trim helpers, HyperTuner.execute and Multitask.execute are the REAL inherited / library code."""
from typing import Any

from pydantic import ConfigDict

from pyvolutionary import Agent, ContinuousVariable, Task
from pyvolutionary.abstract import OptimizationAbstract
from pyvolutionary.models import BaseOptimizationConfig

# the script lives in a module global so that pickled copies (model process pool) see the same script
SCRIPT = {'gens': None, 'table': None, 'calls': {}, 'fn': None}
LOG = []    # one record per optimize() call: dict(name, params, mode, workers, task, score)


def reset(gens=None, table=None, fn=None):
    SCRIPT['gens'] = gens
    SCRIPT['table'] = table
    SCRIPT['fn'] = fn
    SCRIPT['calls'] = {}
    del LOG[:]


class ScriptConfig(BaseOptimizationConfig):
    model_config = ConfigDict(extra='allow')
    population_size: int = 2
    max_cycles: int = 1
    fitness_error: float | None = None
    flag: int | None = 7       # a declared parameter whose default is NOT None (grids may set it to None)


class T0(Task):
    def objective_function(self, x):
        return 0.0


class T1(T0):
    pass


class T2(T0):
    pass


TASK_CLASSES = [T0, T1, T2]


def task0(cls=T0, minmax='min'):
    return cls(variables=[ContinuousVariable(name='x', lower_bound=0, upper_bound=1)], minmax=minmax)


def mk_agent(tag, cost, fitness=0.5):
    return Agent(position=[tag], cost=cost, fitness=fitness)


class ScriptOpt(OptimizationAbstract):
    NAME = None

    def __init__(self, config=None, debug=False):
        super().__init__(config, debug)
        self.steps = 0

    @property
    def name(self):
        return self.NAME or type(self).__name__

    def set_config_parameters(self, parameters: dict[str, Any]):
        self._config = ScriptConfig(**parameters)

    def _params_key(self):
        return tuple(sorted((self._config.model_extra or {}).items()))

    def _gen(self, k):
        """generation k as a list of agents; costs in the script are in the USER's sign"""
        if SCRIPT['gens'] is not None:
            g = SCRIPT['gens']
            g = g[min(k, len(g) - 1)]
            return [mk_agent(t, self._internal(c), f) for (t, c, f) in g]
        # score-table mode (C19/C20): the best cost of every generation is the scripted score of this call
        score = self._score
        return [mk_agent(0.25, self._internal(score), 0.5), mk_agent(0.75, self._internal(score) + 1.0, 0.5)]

    def _internal(self, c):
        return c if str(self._task.minmax) == 'min' else -c

    def _init_population(self):
        self.steps = 0
        if SCRIPT['gens'] is None:
            key = self._params_key()
            if SCRIPT['fn'] is not None:
                self._score = SCRIPT['fn'](dict(key))
            else:
                n = SCRIPT['calls'].get(key, 0)
                SCRIPT['calls'][key] = n + 1
                row = SCRIPT['table'][key]
                self._score = row[n % len(row)]
            LOG.append({'name': self.name, 'params': dict(key), 'config': self._config.model_dump(),
                        'mode': str(self._mode), 'workers': self._workers, 'task': type(self._task).__name__,
                        'score': self._score})
        self._population = self._gen(0)

    def optimization_step(self):
        self.steps += 1
        self._population = self._gen(self.steps)


class ScriptOptA(ScriptOpt):
    pass


class ScriptOptB(ScriptOpt):
    pass


class ScriptOptC(ScriptOpt):
    pass


OPT_CLASSES = [ScriptOptA, ScriptOptB, ScriptOptC]


def score_of_k(params):
    return [3.0, -1.0, 2.0][int(params.get('k', 0)) % 3]


def const_score(params):
    return 1.0

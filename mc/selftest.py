"""Seam self-test (setup_cmd): one baseline schedule per engine executed twice in this process and once in a fresh
subprocess; canonical result hashes must agree.  Also warns if the test fixtures drifted from the frozen configs."""
import json
import os
import subprocess
import sys

from . import harness

SCN = [
    {'opt': 'GreyWolfOptimization', 'over': {'max_cycles': 2, 'fitness_error': None}, 'proto': 'cont3z', 'seed': 3},
    {'opt': 'KrillHerdOptimization', 'over': {'max_cycles': 2, 'fitness_error': None}, 'proto': 'cont3z', 'seed': 3,
     'mode': 'thread', 'workers': 2},
    {'opt': 'ParticleSwarmOptimization', 'over': {'max_cycles': 2, 'fitness_error': None}, 'proto': 'mixed3',
     'seed': 3, 'mode': 'process', 'workers': 3},
]


def hashes():
    out = []
    for scn in SCN:
        ex = harness.run_execution(scn, {4: 1})
        out.append(harness.h8((harness.canon_result(ex.result), repr(ex.exc), len(ex.trace))))
    return out


def main():
    if len(sys.argv) > 1 and sys.argv[1] == '--child':
        print(json.dumps(hashes()))
        return 0
    a, b = hashes(), hashes()
    env = dict(os.environ, PYTHONHASHSEED='0')
    c = json.loads(subprocess.check_output([sys.executable, '-m', 'mc.selftest', '--child'], env=env,
                                           cwd=os.path.dirname(os.path.dirname(os.path.abspath(__file__)))).decode().strip().splitlines()[-1])
    if not (a == b == c):
        print('HARNESS-ERROR: seam self-test: executions are not reproducible', a, b, c)
        return 2
    print('seam self-test ok', a)
    return 0


if __name__ == '__main__':
    sys.exit(main())

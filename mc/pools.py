"""E2 - model pools.  Replace concurrent.futures.{ThreadPoolExecutor, ProcessPoolExecutor, as_completed} while a check
runs; every scheduling decision is a choice point of mc.seams.CTL (atomic mode) or of an explicit Scheduler
(interleaved mode, mc.interleave).

Atomic mode: a submitted call runs to completion when the scheduler lets it complete.  Real executors start calls in
FIFO order as workers free up, so at any moment the calls that can complete next are the first W uncompleted ones;
`which of them completes next` is the choice (default: the oldest = FIFO).

Process model = fork faithful: at the first submit every logical worker receives a copy of the parent's numpy and
stdlib RNG state (Python 3.12 forks all max_workers children at the first submit when the start method is fork);
a call executed by worker w runs on a pickle round trip of (fn, args, kwargs) with w's RNG state installed; its
result (or exception) is pickled back; w's RNG state persists over the calls w executes; the parent's RNG state is
untouched.  `which worker takes the call` is a choice (default: round robin).  Module globals are shared between model
workers (in the real pool they are per process) - a stated limit.
"""
import concurrent.futures as cf
import contextvars
import pickle
import random as _stdrandom

import numpy as np

from . import seams
from .seams import CTL

REAL = {'ThreadPoolExecutor': cf.ThreadPoolExecutor, 'ProcessPoolExecutor': cf.ProcessPoolExecutor,
        'as_completed': cf.as_completed}

# explicit plans for the dedicated harnesses (C11/C16/C19): when set they override the CTL choice points
PLAN = {'order': None, 'assign': None, 'report': None, 'lazy': None}
STATS = {'pool_calls': 0, 'pools': 0}
EVENTS = []        # (pool kind, call index, worker) for every executed pooled call of the current execution
# the atomic pools are not re-entrant across threads; one execution at a time per harness process


class MFuture:
    def __init__(self, pool, idx, payload):
        self.pool = pool
        self.idx = idx
        self.payload = payload
        self.done_ = False
        self.res = None
        self.exc = None

    def done(self):
        return self.done_

    def result(self, timeout=None):
        if not self.done_:
            self.pool._complete(self)
        if self.exc is not None:
            raise self.exc
        return self.res

    def exception(self, timeout=None):
        if not self.done_:
            self.pool._complete(self)
        return self.exc


class _ModelPool:
    kind = '?'

    def __init__(self, max_workers=None, *a, **k):
        self.W = int(max_workers) if max_workers is not None else 4
        if self.W <= 0:
            raise ValueError("max_workers must be greater than 0")
        self.futs = []
        self.closed = False
        STATS['pools'] += 1

    def __enter__(self):
        return self

    def __exit__(self, *a):
        self.shutdown()
        return False

    def shutdown(self, wait=True, cancel_futures=False):
        # the real executors finish every submitted call before the with-block is left
        while self._pending():
            self._complete_next()
        self.closed = True

    def submit(self, fn, *a, **k):
        if self.closed:
            raise RuntimeError('cannot schedule new futures after shutdown')
        f = MFuture(self, len(self.futs), self._pack(fn, a, k))
        self.futs.append(f)
        return f

    def map(self, fn, *iterables, timeout=None, chunksize=1):
        if self.kind == 'process' and chunksize < 1:
            raise ValueError("chunksize must be >= 1.")     # as the real ProcessPoolExecutor.map does
        fs = [self.submit(fn, *args) for args in zip(*iterables)]

        def gen():
            for f in fs:
                yield f.result()
        return gen()

    # -- scheduling
    def _pending(self):
        return [f for f in self.futs if not f.done_]

    def _window(self):
        return self._pending()[:self.W]

    def _complete_next(self, among=None):
        win = self._window()
        if among is not None:
            win = [f for f in win if f in among] or win
        if PLAN['order'] is not None:
            # explicit completion order: complete the earliest-ranked future that is in the window
            rank = {i: r for r, i in enumerate(PLAN['order'])}
            f = min(win, key=lambda x: rank.get(x.idx, len(rank) + x.idx))
        else:
            c = CTL.choose(f'sched:{self.kind}', len(win))
            f = win[c]
        self._run(f)
        return f

    def _complete(self, f):
        # result() of a specific future: the scheduler keeps completing enabled calls (FIFO by default, any other
        # enabled one under a deviation / explicit plan) until this one is done
        while not f.done_:
            self._complete_next()

    def _run(self, f):
        raise NotImplementedError

    def _pack(self, fn, a, k):
        return (fn, a, k)


class ModelThreadPool(_ModelPool):
    """worker threads share the process state; a real ThreadPoolExecutor starts min(#submitted, W) threads and runs
    `initializer` at the start of each of them, i.e. before the first call that thread executes"""
    kind = 'thread'

    def __init__(self, max_workers=None, thread_name_prefix='', initializer=None, initargs=(), **k):
        super().__init__(max_workers)
        self.initializer = initializer
        self.initargs = initargs
        self.tstarted = set()
        self.next_rr = 0

    def _run(self, f):
        fn, a, k = f.payload
        STATS['pool_calls'] += 1
        if self.initializer is not None:
            nthreads = max(1, min(self.W, len(self.futs)))
            if PLAN['assign'] is not None:
                t = PLAN['assign'][f.idx] % nthreads
            else:
                t = self.next_rr % nthreads
                self.next_rr += 1
        else:
            t = None
        EVENTS.append(('thread', f.idx, t))
        try:
            # a pool thread does not see the context variables of the thread that submitted the call
            ctx = contextvars.Context()
            if t is not None and t not in self.tstarted:
                self.tstarted.add(t)
                ctx.run(self.initializer, *self.initargs)
            f.res = ctx.run(fn, *a, **k)
        except seams.HarnessError:
            raise
        except BaseException as e:   # noqa
            f.exc = e
        f.done_ = True


class ModelProcessPool(_ModelPool):
    kind = 'process'

    def __init__(self, max_workers=None, mp_context=None, initializer=None, initargs=(), **k):
        super().__init__(max_workers)
        self.initializer = initializer
        self.initargs = initargs
        self.wstate = None
        self.wstarted = None
        self.next_rr = 0

    def _pack(self, fn, a, k):
        """The real executor keeps the work item by reference and pickles it in a feeder thread some time between
        submit() and the moment a worker receives it.  Choice `pickle` (one per pool): eagerly at submit (default) or
        lazily when the call is handed to its worker - the two extremes of that window."""
        if self.wstate is None:
            st = (np.random.get_state(), _stdrandom.getstate())
            self.wstate = [st for _ in range(self.W)]
            self.wstarted = [False] * self.W
            if PLAN['lazy'] is not None:
                self.lazy = bool(PLAN['lazy'])
            else:
                self.lazy = bool(CTL.choose('sched:pickle', 2))
        if self.lazy:
            return ('lazy', fn, a, k)
        return pickle.dumps((fn, a, k))

    def _run(self, f):
        if PLAN['assign'] is not None:
            w = PLAN['assign'][f.idx] % self.W
        else:
            c = CTL.choose('worker', self.W)
            w = (self.next_rr + c) % self.W
            self.next_rr = (self.next_rr + 1) % self.W
        STATS['pool_calls'] += 1
        EVENTS.append(('process', f.idx, w))
        parent = (np.random.get_state(), _stdrandom.getstate())
        np.random.set_state(self.wstate[w][0])
        _stdrandom.setstate(self.wstate[w][1])
        # a worker is another process: its own identity and pid (code that derives per-worker seeds reads them)
        import multiprocessing as _mp
        import os as _os
        proc = _mp.current_process()
        saved_ident, saved_getpid = proc._identity, _os.getpid
        proc._identity = tuple(saved_ident) + (w + 1,)
        real_pid = saved_getpid()
        _os.getpid = lambda: real_pid + 100000 * (w + 1)
        try:
            try:
                if not self.wstarted[w]:
                    self.wstarted[w] = True
                    if self.initializer is not None:
                        self.initializer(*self.initargs)
                blob = f.payload
                if isinstance(blob, tuple):
                    blob = pickle.dumps(blob[1:])
                fn, a, k = pickle.loads(blob)
                f.res = pickle.loads(pickle.dumps(fn(*a, **k)))
            except seams.HarnessError:
                raise
            except BaseException as e:   # noqa
                f.exc = e
        finally:
            proc._identity = saved_ident
            _os.getpid = saved_getpid
            self.wstate[w] = (np.random.get_state(), _stdrandom.getstate())
            np.random.set_state(parent[0])
            _stdrandom.setstate(parent[1])
        f.done_ = True


def model_as_completed(fs, timeout=None):
    """The real as_completed first reports every future that is ALREADY finished when it is called, iterating a set
    (arbitrary order), then the others in completion order.  Model: a choice `report` decides whether all pooled calls
    had finished before the snapshot (then they are reported in another order than they completed: reversed, or the
    explicit PLAN['report'] permutation) or none had (default: reported as they complete)."""
    fs = list(fs)
    uniq = []
    for f in fs:
        if not any(f is g for g in uniq):
            uniq.append(f)
    early = 0
    if PLAN['report'] is not None:
        early = 1
    elif len(uniq) > 1:
        early = CTL.choose('sched:report', 2)
    if early:
        done_order = []
        while any(not f.done_ for f in uniq):
            pool = next(f for f in uniq if not f.done_).pool
            g = pool._complete_next(among=[x for x in uniq if x.pool is pool and not x.done_])
            if any(g is x for x in uniq):
                done_order.append(g)
        done_order = [f for f in uniq if f.done_ and not any(f is g for g in done_order)] + done_order
        if PLAN['report'] is not None:
            perm = [i for i in PLAN['report'] if i < len(done_order)]
            done_order = [done_order[i] for i in perm] + [f for j, f in enumerate(done_order) if j not in perm]
        else:
            done_order = done_order[::-1]
        for f in done_order:
            yield f
        return
    yielded = []
    for f in uniq:
        if f.done_:
            yielded.append(f)
            yield f
    while len(yielded) < len(uniq):
        todo = [f for f in uniq if not any(f is g for g in yielded)]
        pool = todo[0].pool
        f = pool._complete_next(among=[x for x in todo if x.pool is pool])
        # a completion of a future that is not waited for is simply not reported
        if any(f is x for x in todo):
            yielded.append(f)
            yield f


def install():
    cf.ThreadPoolExecutor = ModelThreadPool
    cf.ProcessPoolExecutor = ModelProcessPool
    cf.as_completed = model_as_completed


def uninstall():
    cf.ThreadPoolExecutor = REAL['ThreadPoolExecutor']
    cf.ProcessPoolExecutor = REAL['ProcessPoolExecutor']
    cf.as_completed = REAL['as_completed']

"""E2 interleaved mode: pooled calls run on real Python threads, one at a time, under a semaphore baton.
Yield points: start/end of a pooled call, every hooked RNG draw, every objective call and (line mode) every `line`
event in a frame whose file lies under pyvolutionary/.  A stateless explorer enumerates all interleavings up to a
pre-emption bound (switching away from a still-enabled call costs 1)."""
import sys
import threading

from . import pools, seams, tasks

CUR = threading.local()


class Deadlock(Exception):
    pass


class Sched:
    def __init__(self, choices, line=False):
        self.choices = list(choices)
        self.pos = 0
        self.points = []      # (n_enabled, chosen, current_enabled)
        self.cur = None
        self.main_sem = threading.Semaphore(0)
        self.line = line
        self.order = []       # completion order of call ids

    def choose(self, enabled):
        # canonical order: the running call first if it is still enabled, then ascending ids
        cur_en = self.cur in enabled
        if cur_en:
            enabled = [self.cur] + [t for t in enabled if t is not self.cur]
        if self.pos < len(self.choices):
            c = self.choices[self.pos]
            if c >= len(enabled):
                raise seams.HarnessError(f"replay divergence: schedule choice {c} of {len(enabled)} at point {self.pos}")
        else:
            c = 0
        self.pos += 1
        self.points.append((len(enabled), c, cur_en))
        return enabled[c]


SCHED = None


class CTask:
    def __init__(self, sched, fn, a, k, tid):
        self.sched, self.fn, self.a, self.k, self.tid = sched, fn, a, k, tid
        self.sem = threading.Semaphore(0)
        self.done = False
        self.started = False
        self.res = None
        self.exc = None
        self.th = threading.Thread(target=self._run, daemon=True)

    def _run(self):
        self.sem.acquire()
        CUR.task = self
        if self.sched.line:
            sys.settrace(self._tracer)
        try:
            self.res = self.fn(*self.a, **self.k)
            sys.settrace(None)
            self.yield_()           # end-of-call yield: another call may complete before this one is reported
        except BaseException as e:   # noqa
            sys.settrace(None)
            self.exc = e
        finally:
            sys.settrace(None)
            self.done = True
            CUR.task = None
            self.sched.order.append(self.tid)
            self.sched.main_sem.release()

    def _tracer(self, frame, ev, arg):
        fn = frame.f_code.co_filename
        if '/pyvolutionary/' not in fn:
            return None
        if ev == 'line':
            self.yield_()
        return self._tracer

    def yield_(self):
        self.sched.main_sem.release()
        self.sem.acquire()

    def step(self):
        if not self.started:
            self.started = True
            self.th.start()
        self.sem.release()
        self.sched.main_sem.acquire()


def yield_point():
    t = getattr(CUR, 'task', None)
    if t is not None:
        t.yield_()


class IFuture:
    def __init__(self, pool, t):
        self.pool, self.t = pool, t

    def done(self):
        return self.t.done

    def result(self, timeout=None):
        while not self.t.done:
            self.pool.advance()
        if self.t.exc is not None:
            raise self.t.exc
        return self.t.res


class InterleavedThreadPool:
    def __init__(self, max_workers=None, thread_name_prefix='', initializer=None, initargs=(), **k):
        self.W = int(max_workers) if max_workers is not None else 4
        self.q = []
        self.sched = SCHED
        self.initializer = initializer
        self.initargs = initargs
        self.nthreads_started = 0

    def __enter__(self):
        return self

    def __exit__(self, *a):
        while any(not t.done for t in self.q):
            self.advance()
        return False

    def submit(self, fn, *a, **k):
        if self.initializer is not None and self.nthreads_started < self.W:
            # a real executor starts one more worker thread for this submit; the thread runs the initializer first
            self.nthreads_started += 1
            init, ia, f0 = self.initializer, self.initargs, fn

            def fn(*aa, **kk):
                init(*ia)
                yield_point()
                return f0(*aa, **kk)
        t = CTask(self.sched, fn, a, k, len(self.q))
        self.q.append(t)
        return IFuture(self, t)

    def map(self, fn, *iterables, timeout=None, chunksize=1):
        fs = [self.submit(fn, *args) for args in zip(*iterables)]

        def gen():
            for f in fs:
                yield f.result()
        return gen()

    def enabled(self):
        running = [t for t in self.q if t.started and not t.done]
        en = list(running)
        if len(running) < self.W:
            nxt = [t for t in self.q if not t.started]
            if nxt:
                en.append(nxt[0])
        return sorted(en, key=lambda t: t.tid)

    def advance(self):
        """one scheduling step"""
        en = self.enabled()
        if not en:
            raise Deadlock('no enabled call while futures are pending')
        t = self.sched.choose(en)
        self.sched.cur = t
        t.step()


def i_as_completed(fs, timeout=None):
    fs = list(fs)
    yielded = set()
    while len(yielded) < len(fs):
        newly = [f for f in fs if f.t.done and id(f) not in yielded]
        if not newly:
            fs[0].pool.advance()
            continue
        # report in completion order
        newly.sort(key=lambda f: f.pool.sched.order.index(f.t.tid))
        for f in newly:
            yielded.add(id(f))
            yield f


def run_schedule(body, choices, line=False):
    """run body() (main-thread code that uses the pool) under the given schedule prefix -> (result, sched)"""
    import concurrent.futures as cf
    global SCHED
    SCHED = Sched(choices, line)
    saved = (cf.ThreadPoolExecutor, cf.as_completed, seams.YIELD_HOOK, tasks.YIELD_HOOK)
    cf.ThreadPoolExecutor = InterleavedThreadPool
    cf.as_completed = i_as_completed
    seams.YIELD_HOOK = yield_point
    tasks.YIELD_HOOK = yield_point
    try:
        res = body()
    finally:
        cf.ThreadPoolExecutor, cf.as_completed, seams.YIELD_HOOK, tasks.YIELD_HOOK = saved
    return res, SCHED


def explore(body, bound, line=False, on_execution=None, max_executions=None):
    """all schedules with at most `bound` pre-emptions (None = unbounded).  on_execution(result, sched, choices)"""
    n = 0
    capped = False
    stack = [([], 0)]
    while stack:
        prefix, used = stack.pop()
        res, sc = run_schedule(body, prefix, line)
        n += 1
        if on_execution:
            on_execution(res, sc, [p[1] for p in sc.points])
        if max_executions and n >= max_executions:
            capped = bool(stack)
            break
        pre = used
        chosen = [p[1] for p in sc.points]
        # pre-emptions inside the replayed prefix are already counted in `used`; walk the free suffix
        cost = used
        for i in range(len(prefix), len(sc.points)):
            n_en, c, cur_en = sc.points[i]
            for alt in range(1, n_en):
                extra = 1 if cur_en else 0
                if bound is None or cost + extra <= bound:
                    stack.append((chosen[:i] + [alt], cost + extra))
            # the default choice (0) never pre-empts
    return n, capped

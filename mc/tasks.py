"""Task alphabet (DESIGN 2.5): prototypes, deterministic instrumented objectives, and the harness's own membership
predicate (computed from the declared variable list, never through Task.is_valid_solution / get_bounds)."""
import math
import numbers

import numpy as np
from pyvolutionary import (
    Task, ContinuousVariable, ContinuousMultiVariable, DiscreteVariable, DiscreteMultiVariable, BinaryVariable,
    PermutationVariable, MultiObjectiveVariable,
)

# ---------------------------------------------------------------------------------------------------------------
# objective log: one record per execution, reset by the harness
OBJ = {'calls': 0, 'bad': [], 'nan_cost': 0, 'args': None}
YIELD_HOOK = None      # set by mc.interleave: every objective call is a yield point of the thread scheduler


def reset_obj(keep_args=False):
    OBJ['calls'] = 0
    OBJ['bad'] = []
    OBJ['nan_cost'] = 0
    OBJ['args'] = [] if keep_args else None


# ---------------------------------------------------------------------------------------------------------------
# flat description of the search space, built by the harness from the declared variables
def flat_space(variables):
    """-> list of ('c', lb, ub) | ('d', n_choices) | ('p', n_items), one entry per coordinate."""
    out = []
    for v in variables:
        if isinstance(v, ContinuousVariable):
            out.append(('c', float(v.lower_bound), float(v.upper_bound)))
        elif isinstance(v, (ContinuousMultiVariable, MultiObjectiveVariable)):
            for lb, ub in zip(v.lower_bounds, v.upper_bounds):
                out.append(('c', float(lb), float(ub)))
        elif isinstance(v, DiscreteVariable):
            out.append(('d', len(v.choices)))
        elif isinstance(v, DiscreteMultiVariable):
            for ch in v.choices:
                out.append(('d', len(ch)))
        elif isinstance(v, BinaryVariable):
            for _ in range(v.n_vars):
                out.append(('d', 2))
        elif isinstance(v, PermutationVariable):
            out.append(('p', len(v.items)))
        else:
            raise TypeError(type(v))
    return out


def coord_problem(spec, x):
    """None if coordinate x is a member of its domain, else a short reason."""
    kind = spec[0]
    if kind == 'c':
        if isinstance(x, bool) or not isinstance(x, numbers.Real):
            return 'continuous-not-a-real'
        xf = float(x)
        if math.isnan(xf):
            return 'continuous-nan'
        if math.isinf(xf):
            return 'continuous-infinite'
        if xf < spec[1] or xf > spec[2]:
            return 'continuous-out-of-range'
        return None
    if kind == 'd':
        if isinstance(x, bool) or not isinstance(x, numbers.Integral):
            return 'discrete-not-an-integer'
        if x < 0 or x >= spec[1]:
            return 'discrete-out-of-range'
        return None
    if kind == 'p':
        if not isinstance(x, (list, tuple, np.ndarray)):
            return 'permutation-not-a-sequence'
        try:
            xs = list(x)
            if any(isinstance(e, bool) or not isinstance(e, numbers.Integral) for e in xs):
                return 'permutation-non-integer'
            if sorted(int(e) for e in xs) != list(range(spec[1])):
                return 'permutation-not-a-permutation'
        except Exception:
            return 'permutation-malformed'
        return None
    raise ValueError(kind)


def position_problem(space, pos):
    """None if pos is a member of the search space described by `space`, else (reason, coordinate index)."""
    if not isinstance(pos, (list, tuple, np.ndarray)):
        return ('not-a-sequence', -1)
    if len(pos) != len(space):
        return ('wrong-length', len(pos))
    for j, (spec, x) in enumerate(zip(space, pos)):
        r = coord_problem(spec, x)
        if r is not None:
            return (r, j)
    return None


# ---------------------------------------------------------------------------------------------------------------
# deterministic objectives (pure functions of a decoded numeric vector)
def _num(v):
    """numeric view of a coordinate (permutation -> position-weighted sum NOT invariant under inversion)."""
    if isinstance(v, (list, tuple, np.ndarray)):
        return float(sum((j + 1) ** 2 * float(p) for j, p in enumerate(v)))
    return float(v)


def f_quad(x):
    # shifted weighted quadratic taking both signs
    return float(sum((j + 1) * (_num(v) - 1.5 + 0.25 * j) ** 2 for j, v in enumerate(x)) - 7.0)


def f_plateau(x):
    # tie-heavy
    return float(sum(math.floor(abs(_num(v)) / 2.0) for v in x) - 2.0)


def f_multi(x):
    return float(sum(_num(v) * math.sin(_num(v) + j) for j, v in enumerate(x)))


def f_zero(x):
    # a constant objective: every agent has exactly the same cost 0.0 (feasibility / count-of-violations style)
    return 0.0


def f_step(x):
    # exactly 0 on most of the box, positive on a thin slab
    return float(sum(1.0 for v in x if _num(v) > 3.5))


def f_denorm(x):
    # scores on a denormal scale (e.g. a raw likelihood): finite, non-zero, below 2.2e-308
    return f_quad(x) * 1e-312


OBJECTIVES = {'quad': f_quad, 'plateau': f_plateau, 'multi': f_multi, 'zero': f_zero, 'step': f_step,
              'denorm': f_denorm}


def _safe(fn, x):
    try:
        return fn(x)
    except Exception:
        return float('nan')


class VTask(Task):
    """Instrumented task.  `data` carries {'obj': name, 'neg': bool, 'mo': bool, 'raise': bool}."""

    def objective_function(self, x):
        d = self.data
        if YIELD_HOOK is not None:
            YIELD_HOOK()
        OBJ['calls'] += 1
        sp = _space_of(self)
        pr = position_problem(sp, x)
        if pr is not None:
            if len(OBJ['bad']) < 5:
                OBJ['bad'].append((pr[0], pr[1], repr(x)[:200]))
            if d.get('raise'):
                raise AssertionError(f"objective called outside the search space: {pr} {x!r}")
        if OBJ['args'] is not None:
            OBJ['args'].append([list(e) if isinstance(e, (list, np.ndarray)) else e for e in x])
        if d.get('obj') == 'decoded':
            # an objective that works on the DECODED solution (labels / choices), as the combinatorial examples do
            dec = self.transform_solution(x)
            v = 0.0
            for name in sorted(dec):
                val = dec[name]
                for j, e in enumerate(val if isinstance(val, (list, tuple)) else [val]):
                    v += (j + 1) ** 2 * (sum(map(ord, e)) % 97 if isinstance(e, str) else float(e))
            return v
        v = pure_objective(d, x)
        if d.get('scribble'):
            # user code is free to edit the list it is handed: Task.solve passes a private, freshly corrected copy
            try:
                for i in range(len(x)):
                    x[i] = 1e300
            except Exception:
                pass
        return v


def pure_objective(d, x):
    fn = OBJECTIVES[d['obj']]
    if d.get('mo'):
        v = [_safe(fn, x), _safe(f_multi, x) + 1.0]
        if d.get('neg'):
            v = [-e for e in v]
        return v
    v = _safe(fn, x)
    return -v if d.get('neg') else v


_SPACE_CACHE = {}


def _space_of(task):
    k = id(task)
    e = _SPACE_CACHE.get(k)
    if e is None or e[0] is not task:
        if len(_SPACE_CACHE) > 64:
            _SPACE_CACHE.clear()
        e = (task, flat_space(task.variables))
        _SPACE_CACHE[k] = e
    return e[1]


# second task class (distinct class name) for C08 / C20 alphabets
class VTaskB(VTask):
    pass


class VTaskC(VTask):
    pass


# ---------------------------------------------------------------------------------------------------------------
# prototypes
def _vars(proto):
    CM, CV = ContinuousMultiVariable, ContinuousVariable
    if proto == 'cont3z':
        return [CM(name='x', lower_bounds=[0, -5, -10], upper_bounds=[10, 0, 10])]
    if proto == 'cont3s':   # the test-suite shape: symmetric bounds
        return [CM(name='x', lower_bounds=[-10, -10, -10], upper_bounds=[10, 10, 10])]
    if proto == 'scales4':
        return [CM(name='x', lower_bounds=[0, -5, -1e6, 1e-3], upper_bounds=[10, 0, 1e6, 2e-3])]
    if proto == 'far2':
        return [CM(name='x', lower_bounds=[1e6, -1e6 - 1], upper_bounds=[1e6 + 1, -1e6])]
    if proto == 'cont2s':
        return [CV(name='a', lower_bound=-3, upper_bound=4), CV(name='b', lower_bound=0.5, upper_bound=2)]
    if proto == 'cont1':
        return [CV(name='a', lower_bound=-3, upper_bound=4)]
    if proto == 'cm1':      # a multi-variable holding exactly one component (the same 1-D problem as cont1)
        return [CM(name='x', lower_bounds=[-3], upper_bounds=[4])]
    if proto == 'cont5':
        return [CM(name='x', lower_bounds=[-4, 0, -5, 2, -1], upper_bounds=[4, 10, 0, 3, 1])]
    if proto == 'mo2':
        return [MultiObjectiveVariable(name='x', lower_bounds=(-2, 0), upper_bounds=(3, 5))]
    if proto == 'disc2':
        return [DiscreteVariable(name='a', choices=['p', 'q', 'r', 's']), DiscreteVariable(name='b', choices=[10, 20, 30])]
    if proto == 'dm2':
        return [DiscreteMultiVariable(name='m', choices=[[1, 2, 3, 4], ['u', 'v', 'w']])]
    if proto == 'dm3':
        return [DiscreteMultiVariable(name='m', choices=[[1, 2, 3, 4], ['u', 'v', 'w'], [0.5, 1.5]])]
    if proto == 'bin4':
        return [BinaryVariable(name='b', n_vars=4)]
    if proto == 'mixed3':
        return [CV(name='a', lower_bound=-3, upper_bound=4), DiscreteVariable(name='d', choices=['p', 'q', 'r', 's']),
                BinaryVariable(name='b', n_vars=2)]
    if proto == 'cm2d':     # a list-bounded multi-variable listed first, followed by other variables
        return [CM(name='x', lower_bounds=[-3, -2], upper_bounds=[4, 5]), DiscreteVariable(name='d', choices=['p', 'q', 'r']),
                CV(name='a', lower_bound=0, upper_bound=1)]
    if proto == 'perm4':
        return [PermutationVariable(name='p', items=[3, 1, 4, 2])]
    if proto == 'perm4s':   # string items: decoding goes through the label table of the variable
        return [PermutationVariable(name='p', items=['delta', 'alpha', 'charlie', 'bravo'])]
    if proto == 'perm4c':
        return [PermutationVariable(name='p', items=['a', 'b', 'c', 'd']), CV(name='a', lower_bound=-3, upper_bound=4)]
    raise KeyError(proto)


CONTINUOUS = ['cont3z', 'cont3s', 'scales4', 'far2', 'cont2s', 'cont1', 'cm1', 'cont5', 'mo2']
INTEGER = ['disc2', 'dm2', 'dm3', 'bin4', 'mixed3', 'cm2d', 'perm4', 'perm4c']
EXTRA_PROTOS = ['perm4s']     # used by dedicated checks only (C07)
ALL_PROTOS = CONTINUOUS + INTEGER


def make_task(proto, minmax='min', obj='quad', neg=False, seed=None, weights=None, cls=VTask, raise_on_bad=False,
              scribble=False):
    d = {'obj': obj, 'neg': bool(neg), 'mo': proto == 'mo2', 'raise': bool(raise_on_bad), 'proto': proto,
         'scribble': bool(scribble)}
    kw = {}
    if proto == 'mo2':
        kw['objective_weights'] = list(weights) if weights is not None else [0.3, 0.7]
    if seed is not None:
        kw['seed'] = seed
    return cls(variables=_vars(proto), minmax=minmax, data=d, **kw)


def user_cost(task, position):
    """Re-evaluate the un-instrumented objective at a reported position (user's sign, weights applied)."""
    if task.data.get('obj') == 'decoded':
        saved = (OBJ['calls'], list(OBJ['bad']), OBJ['args'])
        try:
            return task.objective_function(position)
        finally:
            OBJ['calls'], OBJ['bad'], OBJ['args'] = saved
    v = pure_objective(task.data, position)
    if task.objective_weights is not None:
        return float(sum(w * c for w, c in zip(task.objective_weights, v)))
    return v


def task_dump(task):
    """Deep structural dump of everything a caller can observe on the task."""
    def vd(v):
        d = v.model_dump()
        ch = getattr(v, '_children', None)
        if ch is not None:
            d['__children__'] = [c.model_dump() for c in ch]
        return (type(v).__name__, repr(d))
    import copy
    try:
        b = task.get_bounds()
        bounds = repr([np.asarray(x).tolist() for x in b])
    except Exception as e:      # tasks whose bounds cannot be built (C14 finding) still have to stay unchanged
        bounds = 'raises ' + type(e).__name__
    return {
        'bounds': bounds,
        'fields': repr({k: v for k, v in task.model_dump(exclude={'variables'}).items()}),
        'variables': [vd(v) for v in task.variables],
        'data': copy.deepcopy(task.data),
    }

"""fresh-process side of the C07 reproducibility check: prints {"proto|seed": result hash}"""
import json
import sys

from . import runners


def main():
    req = json.loads(sys.argv[1])
    out = {}
    for proto in req['protos']:
        for tseed in req['seeds']:
            ex, h = runners.c07_case(req['opt'], proto, tseed, 'nothing')
            out[f"{proto}|{tseed}"] = h
    print(json.dumps(out))


if __name__ == '__main__':
    main()

"""Relational executions: a *pair* (or a history) of runs under the same choice list, compared with each other."""
import copy

from . import harness, monitors, registry, seams, tasks
from .harness import canon_num, canon_result


def _gen_table(ex, negate=False):
    out = []
    for g in ex.snaps:
        out.append(tuple((canon_num(p), canon_num(-c if negate else c)) for p, c, f in g))
    return out


def _first_diff(a, b):
    for k, (ga, gb) in enumerate(zip(a, b)):
        if ga != gb:
            for j, (x, y) in enumerate(zip(ga, gb)):
                if x != y:
                    return k, j, x, y
            return k, min(len(ga), len(gb)), len(ga), len(gb)
    return None


# ---------------------------------------------------------------------------------------------------------------
def run_c12(scn, dev, expect, mons):
    """(max, f) vs (min, -f): identical positions generation by generation, costs exact negatives"""
    a = dict(scn, minmax='max', neg=False)
    a.pop('runner')
    b = dict(a, minmax='min', neg=True, lenient=True)
    exa = harness.run_execution(a, dev, expect=expect)
    exb = harness.run_execution(b, dev)
    o = scn['opt']
    finds = []
    if (exa.exc is None) != (exb.exc is None) or (exa.exc and exa.exc[:2] != exb.exc[:2]):
        finds.append(('C12', f"C12|{o}|one-direction-fails", f"max: {exa.exc}; min(-f): {exb.exc}"))
    else:
        # internal costs are equal in both runs; reported costs are exact negatives
        ta, tb = _gen_table(exa), _gen_table(exb)
        if len(ta) != len(tb):
            finds.append(('C12', f"C12|{o}|different-number-of-generations", f"{len(ta)} vs {len(tb)}"))
        d = _first_diff(ta, tb)
        if d is not None:
            finds.append(('C12', f"C12|{o}|trajectories-differ",
                          f"generation {d[0]} agent {d[1]}: max f {d[2]!r:.120} vs min -f {d[3]!r:.120}"))
        elif exa.result is not None and exb.result is not None:
            ra = [[(canon_num(x.position), canon_num(x.cost)) for x in g.agents] for g in exa.result.evolution]
            rb = [[(canon_num(x.position), canon_num(-x.cost)) for x in g.agents] for g in exb.result.evolution]
            if ra != rb:
                finds.append(('C12', f"C12|{o}|reported-costs-not-negatives", 'evolution of max f vs min -f'))
            ba, bb = exa.result.best_solution, exb.result.best_solution
            if canon_num(ba.position) != canon_num(bb.position) or canon_num(ba.cost) != canon_num(-bb.cost):
                finds.append(('C12', f"C12|{o}|best-solution-differs", f"{ba.position} {ba.cost} vs {bb.position} {bb.cost}"))
    return exa, finds


# ---------------------------------------------------------------------------------------------------------------
def run_c08(scn, dev, expect, mons):
    """probe run on an instance with history scn['history'] vs on a fresh instance, same choice list"""
    base = dict(scn)
    base.pop('runner')
    hist = base.pop('history')
    fresh = harness.run_execution(base, dev, expect=expect)
    with seams.paused():
        used_opt = harness.build_optimizer(base)
        # one task OBJECT handed to the same optimizer twice (events flagged same_task)
        shared_task = harness.build_task(base) if any(e.get('same_task') for e in hist) else None
    probe_params = registry.base_params(base['opt'], **base.get('over', {}))
    for k, ev in enumerate(hist):
        with seams.paused():
            if ev.get('over') is not None:
                # an earlier run with other stopping options, through the public API (as HyperTuner does)
                used_opt.set_config_parameters(registry.base_params(base['opt'], **ev['over']))
        hs = {'opt': base['opt'], 'over': ev.get('over') or base.get('over', {}), 'proto': ev['proto'],
              'minmax': ev.get('minmax', 'min'), 'seed': base.get('seed', 0) if ev.get('same_seed') else 1000 + k,
              'weights': ev.get('weights'), 'tcls': ev.get('tcls', 'A'), 'lenient': True, 'obj': ev.get('obj', 'quad')}
        if ev.get('mode'):
            hs['mode'], hs['workers'] = ev['mode'], ev.get('workers', 2)
        if ev.get('same_task'):
            hs.update(proto=base['proto'], minmax=base.get('minmax', 'min'), task_seed=base.get('task_seed'))
        harness.run_execution(hs, {}, opt=used_opt, task=shared_task if ev.get('same_task') else None)
        with seams.paused():
            if ev.get('over') is not None:
                used_opt.set_config_parameters(probe_params)
    used = harness.run_execution(dict(base, lenient=True), dev, opt=used_opt, task=shared_task)
    o = scn['opt']
    finds = []
    tag = '+'.join(e['tag'] for e in hist) or 'none'
    if (fresh.exc is None) != (used.exc is None) or (fresh.exc and fresh.exc[:2] != used.exc[:2]):
        finds.append(('C08', f"C08|{o}|reused-instance-fails-differently", f"history {tag}: fresh {fresh.exc}; "
                      f"used {used.exc}"))
    elif canon_result(fresh.result) != canon_result(used.result):
        fr, ur = fresh.result, used.result
        what = 'result-differs'
        detail = ''
        if fr is not None and ur is not None:
            if len(fr.evolution) != len(ur.evolution) or len(fr.rates) != len(ur.rates):
                what = 'cycles-or-rates-leak'
                detail = f"fresh: {len(fr.evolution)} generations {len(fr.rates)} rates; used: " \
                         f"{len(ur.evolution)} generations {len(ur.rates)} rates"
            else:
                d = _first_diff(_gen_table(fresh), _gen_table(used))
                detail = f"first difference at generation/agent {d[:2] if d else '?'}"
        finds.append(('C08', f"C08|{o}|{what}", f"history {tag}: {detail}"))
    else:
        sf = harness.instance_state(fresh.opt)
        su = harness.instance_state(used.opt)
        if sf != su:
            fields = sorted(k for k in set(sf) | set(su) if sf.get(k) != su.get(k))
            finds.append(('C08', f"C08|{o}|state-leak|{','.join(f.split('__')[-1] for f in fields)[:60]}",
                          f"history {tag}: instance fields differ after the probe run: {fields}"))
    # the probe run on the used instance must also satisfy the per-run monitors (cost truth, feasibility ...)
    finds.extend((p, k, f"[on a reused instance, history {tag}] {d}") for p, k, d in monitors.run_monitors(used, mons))
    return fresh, finds


# ---------------------------------------------------------------------------------------------------------------
def run_c18(scn, dev, expect, mons):
    """Cls(Config(**d)) vs Cls(); set_config_parameters(d) under the same choice list"""
    base = dict(scn)
    base.pop('runner')
    params = registry.base_params(base['opt'], **base.get('over', {}))
    a = harness.run_execution(base, dev, expect=expect)
    o = scn['opt']
    try:
        with seams.paused():
            inst = registry.OPTS[base['opt']]()
            inst.set_config_parameters(params)
    except Exception as e:
        return a, [('C18', f"C18|{o}|bare-construction-or-set_config_parameters-raises",
                    f"params {base.get('over')}: {type(e).__name__}: {e}")]
    b = harness.run_execution(dict(base, lenient=True), dev, opt=inst)
    finds = []

    def compare(x, label):
        if (a.exc is None) != (x.exc is None) or (a.exc and a.exc[:2] != x.exc[:2]):
            finds.append(('C18', f"C18|{o}|construction-paths-fail-differently|{label}", f"ctor(config): {a.exc}; "
                          f"{label}: {x.exc}"))
        elif canon_result(a.result) != canon_result(x.result):
            finds.append(('C18', f"C18|{o}|construction-paths-run-differently|{label}",
                          f"params {base.get('over')}: results differ"))
    compare(b, 'bare+set_config_parameters')
    if scn.get('reconfigure'):
        # the HyperTuner pattern: an instance built (and possibly already run) with the documented configuration is
        # re-configured with d through set_config_parameters
        stop_fields = {k: v for k, v in base.get('over', {}).items()
                       if k in registry.BASE_FIELDS and k != 'population_size'}
        fixture = registry.base_params(base['opt'], **stop_fields)
        for used in (False, True, 'same-task'):
            try:
                with seams.paused():
                    inst2 = registry.OPTS[base['opt']](registry.config_class(base['opt'])(**fixture))
                    shared = harness.build_task(base) if used == 'same-task' else None
                if used:
                    harness.run_execution(dict(base, over=stop_fields, lenient=True, seed=4242), {}, opt=inst2,
                                          task=shared)
                with seams.paused():
                    inst2.set_config_parameters(params)
            except Exception as e:
                finds.append(('C18', f"C18|{o}|reconfiguration-raises", f"{type(e).__name__}: {e}"))
                continue
            c = harness.run_execution(dict(base, lenient=True), dev, opt=inst2, task=shared)
            compare(c, 'built-with-fixture-then-reconfigured' + (
                '-after-a-run-on-the-same-task-object' if used == 'same-task' else '-after-a-run' if used else ''))
    return a, finds


RUNNERS = {'c12': run_c12, 'c08': run_c08, 'c18': run_c18}


# ---------------------------------------------------------------------------------------------------------------
AMBIENT = ['nothing', 'numpy-draws', 'stdlib-draws', 'both', 'unrelated-run']


def _ambient(kind):
    """what the process did with its random generators before the run under test"""
    import random as _r
    from .seams import ORIG, STD_ORIG, ORIG_SEED, STD_SEED
    with seams.paused():
        if kind in ('numpy-draws', 'both'):
            ORIG_SEED(987)
            ORIG['random'](100)
        if kind in ('stdlib-draws', 'both'):
            STD_SEED(654)
            for _ in range(100):
                STD_ORIG['random']()
    if kind == 'unrelated-run':
        harness.run_execution({'opt': 'GreyWolfOptimization', 'over': {'max_cycles': 2, 'fitness_error': None},
                               'proto': 'cont2s', 'seed': 777})


def c07_case(opt, proto, tseed, ambient):
    scn = {'opt': opt, 'over': {'max_cycles': 3, 'fitness_error': None, 'early_stopping': None}, 'proto': proto,
           'task_seed': tseed, 'seed': 31337 + len(ambient), 'keep_ambient': True}
    if proto == 'perm4s':
        scn['obj'] = 'decoded'
    _ambient(ambient)
    ex = harness.run_execution(scn)
    return ex, harness.h8((canon_result(ex.result), repr(ex.exc[:2]) if ex.exc else None))


def run_c07(scn, dev, expect, mons):
    """one optimizer: all (prototype, seed, ambient history) runs in this process + the same runs in a fresh
    subprocess; all results of one (prototype, seed) must be identical"""
    import json
    import os
    import subprocess
    import sys
    o = scn['opt']
    finds, first, n, steps, ends = [], None, 0, 0, []
    table = {}
    for proto in scn['protos']:
        for tseed, ambients in scn['seeds']:
            ref = None
            for amb in ambients:
                ex, h = c07_case(o, proto, tseed, amb)
                n += 1
                steps += ex.steps
                first = first or ex
                for p, k, d in monitors.m_c07_escape(ex):
                    finds.append((p, k, d))
                if ex.exc is not None and ex.exc[0] == 'TypeError' and 'seed' in ex.exc[3].lower():
                    finds.append(('C07', 'C07|seeded-run-raises', f"{o} seed {tseed}: {ex.exc}"))
                if ref is None:
                    ref = h
                    table[f"{proto}|{tseed}"] = h
                    ends.append(h)
                elif h != ref:
                    finds.append(('C07', f"C07|{o}|seeded-run-depends-on-ambient-state",
                                  f"{proto} seed {tseed}: result after '{amb}' differs from the result after 'nothing'"))
    if scn.get('subprocess', True):
        env = dict(os.environ, PYTHONHASHSEED='random')
        env.pop('VERIF_SEED', None)
        req = json.dumps({'opt': o, 'protos': scn['protos'], 'seeds': [s for s, _ in scn['seeds']]})
        try:
            outp = subprocess.run([sys.executable, '-m', 'mc.c07child', req], env=env, capture_output=True, timeout=600,
                                  cwd=os.path.dirname(os.path.dirname(os.path.abspath(__file__))))
            child = json.loads(outp.stdout.decode().strip().splitlines()[-1])
        except Exception as e:
            raise harness.HarnessError(f"C07 child process failed for {o}: {e}")
        n += len(child)
        for k, h in child.items():
            if table.get(k) != h:
                finds.append(('C07', f"C07|{o}|seeded-run-differs-between-processes",
                              f"{k}: fresh process gives another result than this process"))
    first.extra['extra_execs'] = n - 1
    first.extra['extra_steps'] = steps - first.steps
    first.extra['extra_ends'] = ends
    seen, uniq = set(), []
    for f in finds:
        if f[1] not in seen:
            seen.add(f[1])
            uniq.append(f)
    return first, uniq


RUNNERS['c07'] = run_c07

"""Environment seams of pyvolutionary, owned by the explorer.

N1  numpy legacy global RNG: the nine draw functions the library uses, replaced on the numpy.random module
N2  np.random.seed(None): entropy answer supplied by the harness
N3  stdlib random: pass-through + tripwire (reported by the C07 escape monitor)
N4  concurrent.futures.{ThreadPoolExecutor, ProcessPoolExecutor, as_completed}: model pools (mc.pools)
Un-modelled entropy sources (np.random.default_rng / RandomState without a seed, os.urandom, secrets, uuid4,
time-derived seeding) are tripwired.

Every hooked call is a numbered *choice point*.  `CTL.dev` maps point index -> alternative (1-based); absent = the
default answer (what the seeded PRNG returns / FIFO schedule).
"""
import math
import os
import random as _stdrandom
import sys

import numpy as np
import numpy.random as npr

FN = ['random', 'uniform', 'randint', 'choice', 'normal', 'rand', 'permutation', 'standard_normal', 'exponential']
ORIG = {f: getattr(npr, f) for f in FN}
ORIG_SEED = npr.seed
ORIG_DEFAULT_RNG = npr.default_rng
ORIG_RANDOMSTATE = npr.RandomState
STD_FN = ['random', 'randint', 'randrange', 'choice', 'choices', 'shuffle', 'sample', 'uniform', 'gauss',
          'normalvariate', 'getrandbits', 'betavariate', 'expovariate', 'triangular']
STD_ORIG = {f: getattr(_stdrandom, f) for f in STD_FN}
STD_SEED = _stdrandom.seed
ORIG_URANDOM = os.urandom

YIELD_HOOK = None      # set by mc.interleave: every hooked draw is a yield point of the thread scheduler

QLO = 2.0 ** -30
QHI = 1 - 2.0 ** -30


class HarnessError(Exception):
    """Replay divergence or other failure of the machinery itself (exit 2, never a VIOLATION)."""


class Ctl:
    def __init__(self):
        self.installed = False
        self.reset({}, 0)

    def reset(self, dev, seed, menu3=False, expect=None, record_values=False):
        self.dev = dict(dev)
        self.i = 0
        self.trace = []          # list of (tag, n_alternatives)
        self.seed = seed
        self.menu3 = menu3
        self.expect = expect or {}    # point -> tag expected there (replay divergence check)
        self.escapes = []        # tripwire events: (what, call site)
        self.taken = 0           # number of deviations actually applied
        self.active = True
        self.in_objective = 0
        self.entropy_calls = 0

    # a choice point of kind 'sched' / 'worker' with n options; returns the chosen option index
    def choose(self, tag, n):
        if not self.active or n <= 1:
            return 0
        i = self.i
        self.i += 1
        self.trace.append((tag, n - 1))
        w = self.dev.get(i)
        if w is None:
            return 0
        self._check(i, tag)
        if w >= n:
            raise HarnessError(f"replay divergence: choice {w} out of range {n} at point {i} ({tag})")
        self.taken += 1
        return w

    def _check(self, i, tag):
        e = self.expect.get(i)
        if e is not None and e != tag:
            raise HarnessError(f"replay divergence: point {i} is {tag}, recorded {e}")


CTL = Ctl()


def _call_site(depth=2):
    f = sys._getframe(depth)
    while f is not None:
        fn = f.f_code.co_filename
        if 'pyvolutionary' in fn:
            return f"{fn.split('pyvolutionary/')[-1]}:{f.f_code.co_name}"
        f = f.f_back
    return None


def _like(default, val):
    if isinstance(default, np.ndarray):
        return np.full(default.shape, val, dtype=float)
    return float(val)


def _bcast(default, v):
    if isinstance(default, np.ndarray):
        return np.broadcast_to(np.asarray(v, dtype=float), default.shape).copy()
    v = np.asarray(v, dtype=float)
    return float(v) if v.ndim == 0 else v.copy()


def alt_value(f, a, k, default, which):
    """Alternative answer number `which` (1, 2, 3) for draw function f called with (a, k); every value has positive
    probability (density) under numpy's semantics for that call."""
    q = {1: QLO, 2: QHI, 3: 0.53125}[which]    # a typical interior value, deliberately NOT the midpoint: the
    # midpoint of a symmetric interval is exactly 0.0, a measure-zero answer that manufactures 0/0
    if f in ('random', 'rand'):
        return _like(default, q)
    if f == 'uniform':
        low = a[0] if len(a) > 0 else k.get('low', 0.0)
        high = a[1] if len(a) > 1 else k.get('high', 1.0)
        v = np.asarray(low, dtype=float) + (np.asarray(high, dtype=float) - np.asarray(low, dtype=float)) * q
        return _bcast(default, v)
    if f in ('normal', 'standard_normal'):
        if f == 'normal':
            loc = a[0] if len(a) > 0 else k.get('loc', 0.0)
            sc = a[1] if len(a) > 1 else k.get('scale', 1.0)
        else:
            loc, sc = 0.0, 1.0
        z = {1: -6.0, 2: 6.0, 3: 0.5}[which]      # never the exact mean: an exact 0.0 draw has probability 0
        return _bcast(default, np.asarray(loc, dtype=float) + np.asarray(sc, dtype=float) * z)
    if f == 'exponential':
        sc = a[0] if len(a) > 0 else k.get('scale', 1.0)
        if which == 3:
            return default
        return _bcast(default, np.asarray(sc, dtype=float) * (-math.log1p(-q)))
    if f == 'randint':
        low = a[0] if len(a) > 0 else k.get('low')
        high = a[1] if len(a) > 1 else k.get('high')
        if high is None:
            low, high = 0, low
        if which == 3:
            v = (np.asarray(low) + np.asarray(high) - 1) // 2
        else:
            v = np.asarray(low) if which == 1 else np.asarray(high) - 1
        if isinstance(default, np.ndarray):
            return np.broadcast_to(v, default.shape).astype(default.dtype).copy()
        return type(default)(v)
    if f == 'permutation':
        x = a[0] if len(a) > 0 else k.get('x')
        base = np.arange(x) if isinstance(x, (int, np.integer)) else np.array(x)
        if which == 3:
            return default
        return base.copy() if which == 1 else base[::-1].copy()
    if f == 'choice':
        x = a[0] if len(a) > 0 else k.get('a')
        size = a[1] if len(a) > 1 else k.get('size')
        replace = a[2] if len(a) > 2 else k.get('replace', True)
        p = a[3] if len(a) > 3 else k.get('p')
        if which == 3:
            return default
        pool = np.arange(x) if isinstance(x, (int, np.integer)) else np.asarray(list(x))
        idx = np.arange(len(pool))
        if p is not None:
            idx = idx[np.asarray(p) > 0]
        if which == 2:
            idx = idx[::-1]
        if size is None:
            return pool[idx[0]]
        n = int(np.prod(size))
        if replace:
            sel = np.full(n, idx[0])
        else:
            if len(idx) < n:
                return default
            sel = idx[:n]
        return pool[sel].reshape(size)
    raise KeyError(f)


def _mk_hook(f):
    orig = ORIG[f]

    def hook(*a, **k):
        if YIELD_HOOK is not None:
            YIELD_HOOK()
        default = orig(*a, **k)
        c = CTL
        if not c.active:
            return default
        i = c.i
        c.i += 1
        # scalar draws (branch deciders, step lengths) are told apart from vector draws: "random" vs "random*"
        tag = f if not isinstance(default, np.ndarray) else f + '*'
        c.trace.append((tag, 3 if c.menu3 else 2))
        w = c.dev.get(i)
        if w is None:
            return default
        c._check(i, tag)
        c.taken += 1
        return alt_value(f, a, k, default, w)
    hook.__name__ = f
    hook.__verif_hook__ = True
    return hook


def _seed_hook(s=None):
    if s is None:
        # N2: the entropy answer is supplied by the harness: the k-th request of an execution gets a distinct,
        # reproducible answer (the first one is the harness seed itself)
        k = CTL.entropy_calls if CTL.active else 0
        if CTL.active:
            CTL.entropy_calls += 1
        ORIG_SEED((CTL.seed + 1000003 * k) % (2 ** 32))
        if k == 0:
            STD_SEED(CTL.seed)   # the ambient stdlib generator is put in a known state too (its *use* is tripwired)
        return
    ORIG_SEED(s)


def _mk_std_hook(f):
    orig = STD_ORIG[f]

    def hook(*a, **k):
        if CTL.active:
            site = _call_site()
            if site is not None:
                CTL.escapes.append((f"random.{f}", site))
        return orig(*a, **k)
    hook.__name__ = f
    return hook


def _default_rng_hook(seed=None):
    if seed is None and CTL.active:
        site = _call_site()
        if site is not None:
            CTL.escapes.append(("np.random.default_rng()", site))
            return ORIG_DEFAULT_RNG(CTL.seed)   # keep the execution deterministic; the escape is reported
    return ORIG_DEFAULT_RNG(seed)


class _RandomStateHook(ORIG_RANDOMSTATE):
    def __init__(self, seed=None):
        if seed is None and CTL.active:
            site = _call_site()
            if site is not None:
                CTL.escapes.append(("np.random.RandomState()", site))
                seed = CTL.seed
        super().__init__(seed)


def _urandom_hook(n):
    if CTL.active:
        site = _call_site()
        if site is not None:
            CTL.escapes.append(("os.urandom", site))
            return bytes((CTL.seed + j) % 256 for j in range(n))
    return ORIG_URANDOM(n)


def install():
    if CTL.installed:
        return
    for f in FN:
        setattr(npr, f, _mk_hook(f))
    npr.seed = _seed_hook
    npr.default_rng = _default_rng_hook
    for f in STD_FN:
        setattr(_stdrandom, f, _mk_std_hook(f))
    os.urandom = _urandom_hook
    CTL.installed = True


def uninstall():
    if not CTL.installed:
        return
    for f in FN:
        setattr(npr, f, ORIG[f])
    npr.seed = ORIG_SEED
    npr.default_rng = ORIG_DEFAULT_RNG
    for f in STD_FN:
        setattr(_stdrandom, f, STD_ORIG[f])
    os.urandom = ORIG_URANDOM
    CTL.installed = False


class paused:
    """Context manager: hooked calls made by the harness itself are neither counted nor deviated."""
    def __enter__(self):
        self.prev = CTL.active
        CTL.active = False

    def __exit__(self, *a):
        CTL.active = self.prev
        return False

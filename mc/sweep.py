"""The shared E1 sweep (DESIGN 2.6): one set of executions, every sweep monitor evaluated on each.  Results are
memoised under /verif/.memo keyed by the content of /repo/pyvolutionary, /verif/mc, tier, seed and versions, so the
ten properties that share the executions do not repeat them; a changed source file changes the key."""
import fcntl
import hashlib
import json
import os
import sys
import time

from . import explore, registry, tasks
from .report import VERIF, seed as env_seed

MEMO_DIR = os.path.join(VERIF, '.memo')
REPO_PKG = '/repo/pyvolutionary'

BASE = {'fitness_error': None, 'early_stopping': None}


def _scn(opt, proto='cont3z', minmax='min', cycles=2, seed=0, pop_mult=1.0, mode=None, workers=None, over=None,
         **kw):
    o = dict(BASE)
    o['max_cycles'] = cycles
    if pop_mult != 1.0:
        o['population_size'] = int(round(registry.doc_population(opt) * pop_mult))
    if over:
        o.update(over)
    s = {'opt': opt, 'over': o, 'proto': proto, 'minmax': minmax, 'seed': seed}
    if mode:
        s['mode'] = mode
        s['workers'] = workers
    s.update(kw)
    return s


# optimizers that use the pools after initialisation (their later cycles are covered by schedule deviations too)
POOL_AFTER_INIT = ['KrillHerdOptimization', 'FicksLawOptimization', 'WildebeestHerdOptimization',
                   'WindDrivenOptimization', 'CatSwarmOptimization', 'DragonflyOptimization']

STOP_OPTIONS = [
    {'fitness_error': 10.0}, {'fitness_error': 0.1},
    {'early_stopping': {'patience': 1, 'min_delta': 1e-4}}, {'early_stopping': {'patience': 2, 'min_delta': 0.5}},
    {'fitness_error': 0.1, 'early_stopping': {'patience': 2, 'min_delta': 0.5}},
    {'fitness_error': 10.0, 'early_stopping': {'patience': 1, 'min_delta': 1e-4}},
    {'early_stopping': {'patience': 1, 'min_delta': 0.0}},
    {'fitness_error': 0.0, 'early_stopping': {'patience': 3, 'min_delta': 1.0}},
]
# accepted by the EarlyStopping validator (both fields are Optional) - run for a few optimizers only, the stop rule is
# base-class code
STOP_OPTIONS_NONE = [{'early_stopping': {'patience': None, 'min_delta': 0.5}},
                     {'early_stopping': {'patience': 2, 'min_delta': None}}]


# perm4c (a permutation next to another variable) is left to C14: Task.get_bounds builds a ragged array for it, no
# optimizer runs on it, so there is no working (optimizer, encoding) pair for C06 to protect
SWEEP_PROTOS = [p for p in tasks.ALL_PROTOS if p != 'perm4c']


def shared_jobs(tier, s0, names=None):
    names = names or registry.NAMES
    jobs = []
    # (A) d <= 1 over every choice point of initialisation and first cycle, documented scale, cont3z/min, 2 cycles
    for n in names:
        rng = 'first' if tier == 'quick' else 'all'
        jobs.append((_scn(n, seed=s0), {'d': 1, 'range': rng}))
    # (B) d = 0 over the task alphabet x direction x cycle budgets
    for n in names:
        for proto in SWEEP_PROTOS:
            for mm in ('min', 'max'):
                for cyc in (1, 2, 3):
                    if proto == 'cont3z' and mm == 'min' and cyc == 2:
                        continue
                    jobs.append((_scn(n, proto, mm, cyc, seed=s0), {'d': 0}))
    # (B2) other objectives (tie-heavy plateau with exact zeros; multimodal) and an objective that edits the list it
    #      is handed (Task.solve passes a private corrected copy, so this must be harmless)
    for n in names:
        for obj in ('plateau', 'multi'):
            for proto in ('cont3z', 'cont2s', 'mo2'):
                for mm in ('min', 'max'):
                    for cyc in (2, 3):
                        jobs.append((_scn(n, proto, mm, cyc, seed=s0, obj=obj), {'d': 0}))
        for proto in ('cont3z', 'mixed3'):
            jobs.append((_scn(n, proto, seed=s0, scribble=True), {'d': 0}))
            for mode in ('thread', 'process'):
                jobs.append((_scn(n, proto, seed=s0, scribble=True, mode=mode, workers=2), {'d': 0}))
    # (B4) multi-objective weights that do not sum to one, with a zero weight, in both directions
    for n in names:
        for w in ([2.0, 0.5], [1.0, 0.0], [0.2, 0.3]):
            for mm in ('min', 'max'):
                jobs.append((_scn(n, 'mo2', mm, 2, seed=s0, weights=w), {'d': 0}))
    # (B3) degenerate but valid objectives: constant 0 (every agent has exactly the same cost) and a step function
    for n in names:
        for obj in ('zero', 'step'):
            for mm in ('min', 'max'):
                jobs.append((_scn(n, 'cont3z', mm, 3, seed=s0, obj=obj), {'d': 0}))
    # (A2) a population that is not a multiple of the usual group counts (documented + 1), both directions, d <= 1 over
    #      the choice points of the initialisation (an extreme initial agent is the best one for max, the worst for min)
    for n in names:
        for add, mm in ((1, 'min'), (1, 'max'), (2, 'max')):
            jobs.append((_scn(n, 'cont3z', mm, 2, seed=s0, over={'population_size': registry.doc_population(n) + add},
                              odd_population=True), {'d': 1, 'range': 'init'}))
    # (C) modes through the model pools: schedule / worker-assignment deviations, and worker counts
    for n in names:
        for mode in ('thread', 'process'):
            jobs.append((_scn(n, seed=s0, mode=mode, workers=2),
                         {'d': 1, 'range': 'all', 'kinds': ('sched', 'worker')}))
            for w in (1, 3, 4, 16):
                jobs.append((_scn(n, seed=s0, mode=mode, workers=w), {'d': 0}))
            jobs.append((_scn(n, 'cont3z', 'max', 2, seed=s0, mode=mode, workers=2), {'d': 0}))
            jobs.append((_scn(n, 'mixed3', 'max', 2, seed=s0, mode=mode, workers=3), {'d': 0}))
    # (C2) tasks that carry an integer seed, in every mode (the library seeds the generator from it; the task object is
    #      pickled into process workers)        (C3) tie-heavy objectives under the pools
    for n in names:
        jobs.append((_scn(n, seed=s0, task_seed=7), {'d': 0}))
        for mode in ('thread', 'process'):
            jobs.append((_scn(n, seed=s0, mode=mode, workers=2, task_seed=7), {'d': 0}))
            for obj in ('plateau', 'step'):
                jobs.append((_scn(n, 'cont3z', 'min', 3, seed=s0, mode=mode, workers=2, obj=obj), {'d': 0}))
    # (D) stopping options (observational C04)
    for n in names:
        for so in STOP_OPTIONS:
            jobs.append((_scn(n, cycles=3, seed=s0, over=so), {'d': 0}))
        if n in names[:3]:
            for so in STOP_OPTIONS_NONE:
                jobs.append((_scn(n, cycles=3, seed=s0, over=so), {'d': 0}))
    # (E) population multipliers x cycle budgets (C10), serial and pooled
    for n in names:
        for pm in (1.5, 2.0, 3.0):
            for cyc in (1, 2, 3):
                jobs.append((_scn(n, cycles=cyc, seed=s0, pop_mult=pm), {'d': 0}))
            for mode in ('thread', 'process'):
                jobs.append((_scn(n, cycles=2, seed=s0, pop_mult=pm, mode=mode, workers=4), {'d': 0}))
    # (E2) populations that are not multiples of the usual group counts (beyond the property's 1x..3x alphabet): exact
    #      size is still required except for Henry Gas, which regroups into equal clusters by design
    for n in names:
        for add in (1, 2, 3):
            for cyc in (2, 3):
                jobs.append((_scn(n, cycles=cyc, seed=s0, over={'population_size': registry.doc_population(n) + add},
                                  odd_population=True), {'d': 0}))
            jobs.append((_scn(n, cycles=2, seed=s0, over={'population_size': registry.doc_population(n) + add},
                              odd_population=True, mode='thread', workers=3), {'d': 0}))
    # (G) populations BELOW the documented scale (5, 6, 8): C06 and C10 do not claim them (most optimizers index
    #     fixed-size side arrays), but the universally quantified properties (feasibility, cost truth, best solution,
    #     unchanged inputs, history fidelity, elitism) are still checked on every run that completes
    for n in names:
        for pop in (5, 6, 8):
            for mm in ('min', 'max'):
                jobs.append((_scn(n, 'cont3z', mm, cycles=3, seed=s0, over={'population_size': pop},
                                  small_population=True), {'d': 0}))
    # (E3) every population size from documented + 4 to documented + 16 (sizes at which a heap level, a cluster or a
    #      pairing starts or ends), d = 0
    for n in names:
        for add in range(4, 17):
            jobs.append((_scn(n, cycles=2, seed=s0, over={'population_size': registry.doc_population(n) + add},
                              odd_population=True), {'d': 0}))
    # (F) one-parameter deviations of every algorithm parameter to its neighbouring accepted values (d = 0); the
    #     population-size equality of C10 is not claimed under them (DESIGN C10), only its bounds
    for n in names:
        for f, v in registry.param_deviations(n):
            jobs.append((_scn(n, seed=s0, over={f: v}, c10_bounds_only=True), {'d': 0}))
    for n in names:
        for f, v in registry.param_boundary_values(n) + registry.param_int_boundaries(n):
            jobs.append((_scn(n, seed=s0, over={f: v}, c10_bounds_only=True, timeout=60), {'d': 0}))
    if tier == 'thorough':
        for n in names:
            jobs.append((_scn(n, minmax='max', seed=s0), {'d': 1, 'range': 'all'}))
            jobs.append((_scn(n, seed=s0 + 1), {'d': 1, 'range': 'all'}))
            for proto in ('scales4', 'mixed3', 'perm4', 'mo2'):
                jobs.append((_scn(n, proto, seed=s0), {'d': 1, 'range': 'first'}))
            jobs.append((_scn(n, seed=s0), {'d': 2, 'range': 'first', 'window': 2}))
            jobs.append((_scn(n, seed=s0, menu3=True), {'d': 1, 'range': 'first'}))
            for mode in ('thread', 'process'):
                jobs.append((_scn(n, seed=s0, mode=mode, workers=2), {'d': 1, 'range': 'init'}))
    return jobs


# ---------------------------------------------------------------------------------------------------------------
_TREE_HASH = None


def tree_hash():
    """content hash of the code under test and of the machinery, taken ONCE per process (a long run keeps the code it
    imported; files edited meanwhile must not relabel its results)"""
    global _TREE_HASH
    if _TREE_HASH is None:
        _TREE_HASH = _tree_hash()
    return _TREE_HASH


def _tree_hash():
    h = hashlib.sha256()
    for root in (REPO_PKG, os.path.join(VERIF, 'mc')):
        for dp, dn, fn in sorted(os.walk(root)):
            dn.sort()
            if '__pycache__' in dp:
                continue
            for f in sorted(fn):
                if f.endswith(('.py', '.json')):
                    p = os.path.join(dp, f)
                    h.update(p.encode())
                    with open(p, 'rb') as fh:
                        h.update(fh.read())
    import numpy
    import pydantic
    h.update(f"{sys.version}{numpy.__version__}{pydantic.__version__}".encode())
    return h.hexdigest()[:20]


def memo_get(name, tier, s0, compute):
    """memoised compute() -> json-able; file lock so concurrent checks compute once"""
    if os.environ.get('VERIF_NO_MEMO'):
        r = compute()
        r['memo_hit'] = False
        return r
    os.makedirs(MEMO_DIR, exist_ok=True)
    key = f"{name}-{tier}-{s0}-{tree_hash()}"
    path = os.path.join(MEMO_DIR, key + '.json')
    lock = open(os.path.join(MEMO_DIR, f"{name}-{tier}.lock"), 'w')
    fcntl.flock(lock, fcntl.LOCK_EX)
    try:
        if os.path.exists(path):
            try:
                r = json.load(open(path))
                r['memo_hit'] = True
                return r
            except Exception:
                pass
        r = compute()
        r['memo_hit'] = False
        tmp = path + '.tmp'
        with open(tmp, 'w') as fh:
            json.dump(r, fh, default=repr)
        os.replace(tmp, path)
        # keep the memo directory small
        olds = sorted((os.path.getmtime(os.path.join(MEMO_DIR, f)), f) for f in os.listdir(MEMO_DIR)
                      if f.endswith('.json'))
        for _, f in olds[:-12]:
            os.remove(os.path.join(MEMO_DIR, f))
        return r
    finally:
        fcntl.flock(lock, fcntl.LOCK_UN)
        lock.close()


def get_shared(tier, s0=None, progress=None):
    s0 = env_seed() if s0 is None else s0

    def compute():
        t = time.time()
        jobs = shared_jobs(tier, s0)
        acc = explore.run_jobs(jobs, progress=progress)
        j = acc.to_json()
        j['jobs'] = len(jobs)
        j['wall_s'] = round(time.time() - t, 1)
        return j
    return memo_get('shared', tier, s0, compute)

"""Command line entry: python -m mc.check <property> [--tier quick|thorough]"""
import argparse
import importlib
import os
import sys
import traceback

from . import explore
from .report import Reporter
from .seams import HarnessError

PROPS = [f"C{i:02d}" for i in range(1, 21)]


def main(argv=None):
    ap = argparse.ArgumentParser()
    ap.add_argument('prop')
    ap.add_argument('--tier', default=os.environ.get('VERIF_TIER', 'quick'), choices=['quick', 'thorough'])
    a = ap.parse_args(argv)
    if a.prop not in PROPS:
        print(f"unknown property {a.prop}")
        return 2
    os.environ.setdefault('PYTHONHASHSEED', '0')
    rep = Reporter(a.prop, a.tier)
    try:
        mod = importlib.import_module(f"mc.props.{a.prop.lower()}")
        mod.run(rep, a.tier)
    except HarnessError as e:
        print(f"HARNESS-ERROR: {e}")
        traceback.print_exc()
        return 2
    finally:
        explore.close_pool()
    return rep.finish()


if __name__ == '__main__':
    sys.exit(main())

"""E1 - deviation-bounded stateless exploration of the real optimize() over environment answers.

A *job* = (scenario, plan).  plan = {'d': 0|1|2, 'range': 'all'|'first'|'init', 'kinds': None|('sched','worker'),
'window': 2}.  The baseline (empty choice list) is run first; then every choice list with <= d deviations inside the
range; executions always run to completion.  Work is spread over worker processes in chunks of roughly equal cost.
"""
import json
import multiprocessing as mp
import os
import time

from . import harness, monitors
from .seams import HarnessError

NPROC = int(os.environ.get('VERIF_NPROC', '0')) or min(16, os.cpu_count() or 4)
CHUNK_S = 1.5


def _range_end(ex, rng):
    marks = ex.extra.get('marks', [])
    n = len(ex.trace)
    if rng == 'all' or not marks:
        return n
    if rng == 'init':
        return marks[0]
    if rng == 'first':
        return marks[1] if len(marks) > 1 else n
    raise ValueError(rng)


def _kind_ok(tag, kinds):
    if kinds is None:
        return True
    if 'scalar' in kinds and ':' not in tag and not tag.endswith('*') and tag != 'worker':
        return True
    return tag.split(':')[0] in kinds


class Acc:
    """aggregated outcome of a set of executions"""

    def __init__(self):
        self.findings = {}     # key -> {'prop','key','detail','scn','dev','count', 'order'}
        self.execs = 0
        self.points = 0
        self.transitions = 0
        self.states = set()
        self.ends = set()
        self.ends_dev = set()
        self.taken = 0
        self.samples = []
        self.errors = []
        self.max_d = 0
        self.cpu_s = 0.0
        self.crashed_baselines = []
        self.pairs = {}        # "optimizer|prototype|mode" -> [executions, failed]

    def add_exec(self, ex, finds):
        self.execs += 1 + ex.extra.get('extra_execs', 0)
        self.transitions += ex.steps + ex.extra.get('extra_steps', 0)
        for h in ex.extra.get('extra_ends', ()):
            self.ends.add(h)
        self.states.update(harness.state_hashes(ex))
        e = harness.h8(harness.canon_result(ex.result)) if ex.result is not None else 'exc:' + repr(ex.exc[:2])
        self.ends.add(e)
        if ex.taken:
            self.ends_dev.add(e)
            self.taken += 1
        self.max_d = max(self.max_d, len(ex.dev))
        pk = f"{ex.scn['opt']}|{ex.scn['proto']}"
        pr = self.pairs.setdefault(pk, [0, 0])
        pr[0] += 1
        pr[1] += 1 if ex.exc is not None else 0
        order = (len(ex.dev), min(ex.dev) if ex.dev else -1)
        for prop, key, detail in finds:
            cur = self.findings.get(key)
            if cur is None:
                self.findings[key] = {'prop': prop, 'key': key, 'detail': detail, 'scn': ex.scn,
                                      'dev': sorted(ex.dev.items()), 'count': 1, 'order': order,
                                      'expect': {i: ex.trace[i][0] for i in ex.dev if i < len(ex.trace)}}
            else:
                cur['count'] += 1
                if order < tuple(cur['order']):
                    cur.update(detail=detail, scn=ex.scn, dev=sorted(ex.dev.items()), order=order,
                               expect={i: ex.trace[i][0] for i in ex.dev if i < len(ex.trace)})

    def merge(self, o):
        for k, f in o.findings.items():
            cur = self.findings.get(k)
            if cur is None:
                self.findings[k] = f
            else:
                n = cur['count'] + f['count']
                if tuple(f['order']) < tuple(cur['order']):
                    self.findings[k] = f
                self.findings[k]['count'] = n
        self.execs += o.execs
        self.points += o.points
        self.transitions += o.transitions
        self.states |= o.states
        self.ends |= o.ends
        self.ends_dev |= o.ends_dev
        self.taken += o.taken
        self.max_d = max(self.max_d, o.max_d)
        self.cpu_s += o.cpu_s
        self.errors += o.errors
        self.crashed_baselines += o.crashed_baselines
        for k, v in o.pairs.items():
            pr = self.pairs.setdefault(k, [0, 0])
            pr[0] += v[0]
            pr[1] += v[1]
        for s in o.samples:
            if len(self.samples) < 6:
                self.samples.append(s)

    def to_json(self):
        return {'findings': list(self.findings.values()), 'execs': self.execs, 'points': self.points,
                'transitions': self.transitions, 'states': len(self.states), 'ends': len(self.ends),
                'ends_dev': len(self.ends_dev), 'taken': self.taken, 'samples': self.samples, 'errors': self.errors,
                'max_d': self.max_d, 'cpu_s': round(self.cpu_s, 1), 'crashed_baselines': self.crashed_baselines,
                'pairs': self.pairs}


def _instrumented_run(scn, dev, expect=None):
    ex = harness.run_execution(scn, dev, expect=expect)
    return ex


def _run_one(scn, dev, acc, mons, expect=None):
    r = scn.get('runner')
    if r:
        from . import runners
        ex, finds = runners.RUNNERS[r](scn, dev, expect, mons)
        ex.scn = scn      # witnesses replay the whole relational scenario
        acc.add_exec(ex, finds)
        return ex
    ex = harness.run_execution(scn, dev, expect=expect)
    acc.add_exec(ex, monitors.run_monitors(ex, mons))
    return ex


def _baseline(args):
    """phase A: run the baseline of a job; return its accumulator and the list of deviation lists to explore"""
    job_id, scn, plan, mon_names = args
    mons = [getattr(monitors, m) for m in mon_names]
    acc = Acc()
    t0 = time.process_time()
    try:
        ex = _run_one(scn, {}, acc, mons)
    except HarnessError as e:
        acc.errors.append(f"{scn}: {e}")
        return job_id, acc, [], 0.0
    except Exception as e:     # the machinery itself failed: reported as a harness error, never as a verdict
        import traceback
        acc.errors.append(f"{scn}: harness exception {type(e).__name__}: {e} | {traceback.format_exc()[-400:]}")
        return job_id, acc, [], 0.0
    dt = time.process_time() - t0
    acc.cpu_s += dt
    devs = []
    d = plan.get('d', 0)
    if d >= 1:
        end = _range_end(ex, plan.get('range', 'all'))
        kinds = plan.get('kinds')
        for i in range(min(end, len(ex.trace))):
            tag, nalt = ex.trace[i]
            if not _kind_ok(tag, kinds):
                continue
            alts = range(1, nalt + 1)
            if tag.startswith('sched') and plan.get('sched_last_only', True) and nalt > 1:
                alts = [nalt]
            for a in alts:
                devs.append(([(i, a)], {i: tag}))
        acc.points += sum(1 for i in range(min(end, len(ex.trace))) if _kind_ok(ex.trace[i][0], kinds))
        if ex.exc is not None:
            acc.crashed_baselines.append(scn['opt'])
    if len(acc.samples) < 1:
        acc.samples.append({'scenario': scn, 'choice_list': [], 'points': len(ex.trace),
                            'trace_head': [t[0] for t in ex.trace[:12]]})
    return job_id, acc, devs, dt


def _chunk(args):
    """phase B: run a list of deviation lists of one job (and, for d = 2, their windowed extensions)"""
    scn, plan, devs, mon_names = args
    mons = [getattr(monitors, m) for m in mon_names]
    acc = Acc()
    t0 = time.process_time()
    window = plan.get('window', 2)
    kinds = plan.get('kinds')
    for dev, expect in devs:
        try:
            ex = _run_one(scn, dict(dev), acc, mons, expect=expect)
        except HarnessError as e:
            acc.errors.append(f"{scn} {dev}: {e}")
            continue
        except Exception as e:
            acc.errors.append(f"{scn} {dev}: harness exception {type(e).__name__}: {e}")
            continue
        if len(acc.samples) < 1:
            acc.samples.append({'scenario': scn, 'choice_list': dev, 'draw_at_deviation': expect,
                                'points': len(ex.trace)})
        if plan.get('d', 0) >= 2 and len(dev) == 1:
            i = dev[0][0]
            for j in range(i + 1, min(i + 1 + window, len(ex.trace))):
                tag, nalt = ex.trace[j]
                if not _kind_ok(tag, kinds):
                    continue
                for b in range(1, min(nalt, 2) + 1):
                    dev2 = list(dev) + [(j, b)]
                    exp2 = dict(expect)
                    exp2[j] = tag
                    try:
                        _run_one(scn, dict(dev2), acc, mons, expect=exp2)
                    except HarnessError as e:
                        acc.errors.append(f"{scn} {dev2}: {e}")
    acc.cpu_s += time.process_time() - t0
    return acc


_POOL = None


def pool():
    global _POOL
    if _POOL is None:
        ctx = mp.get_context('fork')
        _POOL = ctx.Pool(NPROC)
    return _POOL


def close_pool():
    global _POOL
    if _POOL is not None:
        _POOL.terminate()
        _POOL = None


def run_jobs(jobs, mon_names=None, progress=None):
    """jobs: list of (scenario, plan).  Returns the merged Acc."""
    if mon_names is None:
        mon_names = [m.__name__ for m in monitors.SWEEP_MONITORS]
    total = Acc()
    p = pool()
    chunks = []
    t0 = time.time()
    base_args = [(i, scn, plan, mon_names) for i, (scn, plan) in enumerate(jobs)]
    for job_id, acc, devs, dt in p.imap_unordered(_baseline, base_args, chunksize=4):
        total.merge(acc)
        if devs:
            scn, plan = jobs[job_id]
            mult = 1 + (2 * plan.get('window', 2) * 2 if plan.get('d', 0) >= 2 else 0)
            per = max(1, int(CHUNK_S / max(dt * mult, 1e-4)))
            for s in range(0, len(devs), per):
                chunks.append((dt * mult * min(per, len(devs) - s), (scn, plan, devs[s:s + per], mon_names)))
    if progress:
        progress(f"baselines: {len(jobs)} jobs {time.time() - t0:.1f}s, {len(chunks)} chunks")
    chunks.sort(key=lambda c: -c[0])
    for acc in p.imap_unordered(_chunk, [c[1] for c in chunks], chunksize=1):
        total.merge(acc)
    return total

"""C17 - the structurally elitist set, fixed from a line-by-line reading of every optimization_step on the pinned tree
(DESIGN Appendix A).  A subset of the true elitist set is sound; it only costs detection power."""

NOT_ELITIST = {
    'BacterialForagingOptimization': 'swim / split / random elimination re-create bacteria',
    'BeeColonyOptimization': 'scouts re-initialise exhausted food sources',
    'ChernobylDisasterOptimization': 'replaces every agent',
    'CoralReefOptimization': 'larvae settle / depredation',
    'CoronavirusHerdImmunityOptimization': 'immune reset re-initialises aged recovered agents',
    'CoyotesOptimization': 'pup replaces the oldest coyote',
    'DwarfMongooseOptimization': 'babysitters are re-initialised',
    'EarthwormsOptimization': 'best survives only through cauchy mutation with a probability',
    'FireHawkOptimization': 'replace-and-trim',
    'FireflySwarmOptimization': 'each firefly is replaced by the best of fresh candidates',
    'FishSchoolSearchOptimization': 'collective moves re-create every fish',
    'GeneticAlgorithmOptimization': 'generational replacement',
    'ImperialistCompetitiveOptimization': 'empires / colonies, reports empire cost',
    'ParticleSwarmOptimization': 'particles always move',
    'WaterCycleOptimization': 'streams flow (replace), evaporation',
}

SCHEME = {
    # name: replacement scheme (reason for membership)
    'AfricanVultureOptimization': 'greedy', 'AntColonyOptimization': 'trim', 'AntLionOptimization': 'trim',
    'AquilaOptimization': 'greedy(new,old)', 'ArchimedeOptimization': 'greedy',
    'BatOptimization': 'greedy gated by loudness', 'BattleRoyaleOptimization': 'greedy per slot',
    'BiogeographyBasedOptimization': 'greedy + elites trimmed back in',
    'BrainStormOptimization': 'greedy per cluster slot', 'ImprovedBrainStormOptimization': 'greedy per cluster slot',
    'BrownBearOptimization': 'greedy x2', 'CamelCaravanOptimization': 'greedy', 'CatSwarmOptimization': 'greedy',
    'ChaosGameOptimization': 'trim', 'CoatiOptimization': 'greedy x2',
    'CuckooSearchOptimization': 'greedy(new,old), worst n_cut re-initialised', 'DragonflyOptimization': 'greedy',
    'EgretSwarmOptimization': 'greedy', 'ElectromagneticFieldOptimization': 'greedy',
    'ElephantHerdOptimization': 'greedy, worst of each clan re-initialised', 'EnergyValleyOptimization': 'trim',
    'FicksLawOptimization': 'pool-greedy', 'FireworksOptimization': 'trim',
    'FlowerPollinationAlgorithmOptimization': 'greedy(new,old)', 'ForensicBasedInvestigationOptimization': 'greedy x4',
    'ForestOptimizationAlgorithm': 'best tree never ages', 'FoxOptimization': 'greedy',
    'GainingSharingKnowledgeOptimization': 'greedy', 'GerminalCenterOptimization': 'greedy',
    'GiantTrevallyOptimization': 'greedy x3', 'GizaPyramidConstructionOptimization': 'trim (strictly better only)',
    'GoldenJackalOptimization': 'greedy', 'GrasshopperOptimization': 'greedy(new,old)', 'GreyWolfOptimization': 'greedy',
    'HarmonySearchOptimization': 'trim', 'HeapBasedOptimization': 'slot replaced only if better',
    'HenryGasSolubilityOptimization': 'greedy', 'HungerGamesSearchOptimization': 'greedy(new,old)',
    'InvasiveWeedOptimization': 'trim', 'KrillHerdOptimization': 'pool-greedy',
    'LeviFlightJayaSwarmOptimization': 'greedy', 'MarinePredatorsOptimization': 'greedy',
    'MonarchButterflyOptimization': 'keep elites appended', 'MothFlameOptimization': 'greedy',
    'MountainGazelleOptimization': 'trim', 'MultiverseOptimization': 'greedy', 'NuclearReactionOptimization': 'greedy x3',
    'OspreyOptimization': 'greedy x2', 'PathfinderAlgorithmOptimization': 'greedy(new,old)',
    'PelicanOptimization': 'greedy x2', 'RungeKuttaOptimization': 'accept-if-better',
    'SalpSwarmOptimization': 'greedy(new,old)', 'SeagullOptimization': 'greedy(new,old)', 'ServalOptimization': 'greedy x2',
    'SiberianTigerOptimization': 'greedy x2', 'QleSineCosineAlgorithmOptimization': 'greedy(new,old)',
    'SineCosineAlgorithmOptimization': 'greedy(new,old)', 'SpottedHyenaOptimization': 'greedy',
    'SuccessHistoryIntelligentOptimization': 'greedy', 'SwarmHillClimbingOptimization': 'greedy vs best neighbour',
    'TasmanianDevilOptimization': 'greedy against the original agent', 'TunaSwarmOptimization': 'greedy',
    'VirusColonySearchOptimization': 'greedy x3', 'WalrusOptimization': 'greedy x2', 'WarStrategyOptimization': 'greedy',
    'WhalesOptimization': 'greedy', 'WildebeestHerdOptimization': 'greedy x2 + pool-greedy',
    'WindDrivenOptimization': 'pool-greedy', 'ZebraOptimization': 'greedy(new,old) x2',
}

ELITIST = set(SCHEME)
assert not (ELITIST & set(NOT_ELITIST))


def is_elitist_under(name, cfg, dim):
    """membership of the structurally elitist set under the structural precondition of the conditional members;
    cfg is the configuration dump"""
    if name not in ELITIST:
        return False
    n = cfg['population_size']
    if name in ('BrainStormOptimization', 'ImprovedBrainStormOptimization'):
        return n % cfg['m_clusters'] == 0
    if name == 'HenryGasSolubilityOptimization':
        return n % cfg['n_clusters'] == 0
    if name == 'ElephantHerdOptimization':
        return n // cfg['n_clans'] >= 2
    if name == 'MonarchButterflyOptimization':
        return cfg.get('keep', 2) >= 1
    if name == 'CuckooSearchOptimization':
        return int(cfg['p_a'] * n) < n
    if name == 'ForestOptimizationAlgorithm':
        return cfg.get('area_limit', 10) >= 1
    return True

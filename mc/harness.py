"""One execution of the real optimize() under the seams, with the per-execution observations the monitors need."""
import contextlib
import hashlib
import io
import math
import sys
import traceback

import numpy as np

from . import pools, registry, seams, tasks
from .seams import CTL, HarnessError


DEFAULT_TIMEOUT = 150      # seconds; the slowest legitimate execution of the alphabets takes well under 10 s


class Exec:
    __slots__ = ('scn', 'dev', 'trace', 'result', 'exc', 'snaps', 'steps', 'obj', 'cfg_before', 'cfg_after',
                 'cfg_same_object', 'task_before', 'task_after', 'escapes', 'taken', 'task', 'opt', 'pool_events',
                 'space', 'config', 'extra')


def _pv_frame(tb):
    """innermost traceback frame that lies in pyvolutionary -> (function, file:line)"""
    best = None
    for fs in traceback.extract_tb(tb):
        if '/pyvolutionary/' in fs.filename and '/verif/' not in fs.filename:
            best = fs
    if best is None:
        return ('<outside>', '')
    return (best.name, f"{best.filename.split('/pyvolutionary/')[-1]}:{best.lineno}")


def exc_info(e):
    fn, where = _pv_frame(e.__traceback__)
    return (type(e).__name__, fn, where, str(e)[:160])


def msg_token(msg):
    """short value-independent token of an exception message (digits and quotes dropped)"""
    import re
    t = re.sub(r"[0-9'\"().,:\[\]]+", ' ', msg.split('\n')[0])
    return ' '.join(t.split())[:40]


def snap_population(pop):
    out = []
    for a in pop:
        out.append(([list(e) if isinstance(e, (list, np.ndarray)) else e for e in a.position], a.cost, a.fitness))
    return out


class Instrument:
    """Class-level wrappers (pickle-transparent: instances are pickled by reference to their class)."""

    def __init__(self, cls, ex):
        self.cls = cls
        self.ex = ex
        self.saved = []

    def _patch(self, name, make):
        had = name in self.cls.__dict__
        orig_raw = self.cls.__dict__.get(name)
        orig = getattr(self.cls, name)
        self.saved.append((name, had, orig_raw))
        setattr(self.cls, name, make(orig))

    def __enter__(self):
        ex = self.ex

        def mk_step(orig):
            def optimization_step(self_, *a, **k):
                ex.steps += 1
                r = orig(self_, *a, **k)
                ex.snaps.append(snap_population(self_._population))
                ex.extra['marks'].append(CTL.i)
                return r
            return optimization_step

        def mk_after(orig):
            def after_initialization(self_, *a, **k):
                if not ex.snaps:   # some optimizers re-run after_initialization inside every step
                    ex.snaps.append(snap_population(self_._population))
                    ex.extra['marks'].append(CTL.i)
                return orig(self_, *a, **k)
            return after_initialization
        self._patch('optimization_step', mk_step)
        self._patch('after_initialization', mk_after)
        return self

    def __exit__(self, *a):
        for name, had, orig_raw in reversed(self.saved):
            if had:
                setattr(self.cls, name, orig_raw)
            else:
                delattr(self.cls, name)
        return False


def build_task(scn):
    cls = {'A': tasks.VTask, 'B': tasks.VTaskB, 'C': tasks.VTaskC}[scn.get('tcls', 'A')]
    return tasks.make_task(scn['proto'], minmax=scn.get('minmax', 'min'), obj=scn.get('obj', 'quad'),
                           neg=scn.get('neg', False), seed=scn.get('task_seed'), weights=scn.get('weights'), cls=cls,
                           scribble=scn.get('scribble', False))


def build_optimizer(scn):
    return registry.make(scn['opt'], **scn.get('over', {}))


def run_execution(scn, dev=None, expect=None, opt=None, task=None, keep_args=False):
    """Run optimize() once.  scn: dict(opt, over, proto, minmax, obj, neg, mode, workers, seed, menu3)."""
    dev = dev or {}
    ex = Exec()
    ex.scn, ex.dev = scn, dict(dev)
    ex.snaps, ex.steps, ex.result, ex.exc, ex.extra = [], 0, None, None, {'marks': []}
    with seams.paused():
        if task is None:
            task = build_task(scn)
        if opt is None:
            try:
                opt = build_optimizer(scn)
            except Exception as e:   # a frozen configuration the validator no longer accepts: C06/C18, not a harness error
                ex.exc = ('ConfigRejected:' + type(e).__name__, '__init__', '', str(e)[:160])
                opt = None
    ex.task, ex.opt = task, opt
    ex.space = tasks.flat_space(task.variables)
    tasks.reset_obj(keep_args)
    del pools.EVENTS[:]
    if opt is None:
        ex.trace, ex.escapes, ex.taken, ex.obj = [], [], 0, dict(tasks.OBJ)
        ex.cfg_before = ex.cfg_after = ex.task_before = ex.task_after = None
        ex.cfg_same_object, ex.config, ex.pool_events = True, None, []
        return ex
    cfg = opt.configuration
    ex.config = cfg
    ex.cfg_before = cfg.model_dump() if cfg is not None else None
    ex.task_before = tasks.task_dump(task)
    seams.install()
    pools.install()
    CTL.reset(dev, scn.get('seed', 0), menu3=scn.get('menu3', False), expect=expect)
    if not scn.get('keep_ambient'):
        # the ambient state of both generators is owned by the harness: an execution never depends on what ran before
        # it in this process, whether or not the library reseeds for an unseeded task (C07 sets keep_ambient: there the
        # ambient state is the thing being varied)
        seams.ORIG_SEED(scn.get('seed', 0) % (2 ** 32))
        seams.STD_SEED(scn.get('seed', 0))
    mode, workers = scn.get('mode'), scn.get('workers')
    out = io.StringIO()
    # every execution has a horizon: code that stops terminating must become a verdict, not a hung check
    tmo = scn.get('timeout', DEFAULT_TIMEOUT)
    import threading
    if tmo and threading.current_thread() is not threading.main_thread():
        tmo = None
    if tmo:
        import signal

        def _alarm(*a):
            raise TimeoutError(f"execution cut after {tmo} s")
        old_alarm = signal.signal(signal.SIGALRM, _alarm)
        signal.setitimer(signal.ITIMER_REAL, float(tmo), 5.0)
    try:
        with Instrument(type(opt), ex), contextlib.redirect_stdout(out), np.errstate(all='ignore'), \
                _no_warnings():
            try:
                kw = {}
                if mode is not None:
                    kw['mode'] = mode
                if workers is not None:
                    kw['workers'] = workers
                ex.result = opt.optimize(task, **kw)
            except HarnessError:
                raise
            except Exception as e:
                ex.exc = exc_info(e)
                ex.extra['exc_is_valueerror'] = isinstance(e, ValueError)
    finally:
        if tmo:
            signal.setitimer(signal.ITIMER_REAL, 0)
            signal.signal(signal.SIGALRM, old_alarm)
        CTL.active = False
        pools.uninstall()
    ex.trace = CTL.trace
    ex.escapes = list(CTL.escapes)
    ex.taken = CTL.taken
    for i in dev:
        if i >= len(ex.trace) and ex.exc is None and not scn.get('lenient'):
            raise HarnessError(f"replay divergence: deviated point {i} was never reached ({len(ex.trace)} points)")
    ex.obj = {'calls': tasks.OBJ['calls'], 'bad': list(tasks.OBJ['bad']), 'args': tasks.OBJ['args']}
    with seams.paused():
        ex.cfg_after = cfg.model_dump() if cfg is not None else None
        ex.cfg_same_object = opt.configuration is cfg
        ex.task_after = tasks.task_dump(task)
    ex.pool_events = list(pools.EVENTS)
    return ex


class _no_warnings:
    def __enter__(self):
        import warnings
        self.cm = warnings.catch_warnings()
        self.cm.__enter__()
        warnings.simplefilter('ignore')

    def __exit__(self, *a):
        return self.cm.__exit__(*a)


# ---------------------------------------------------------------------------------------------------------------
# canonical forms
def canon_num(x):
    if isinstance(x, (float, np.floating)):
        x = float(x)
        if math.isnan(x):
            return 'nan'
        return x.hex()
    if isinstance(x, (bool, np.bool_)):
        return bool(x)
    if isinstance(x, (int, np.integer)):
        return int(x)
    if isinstance(x, (list, tuple, np.ndarray)):
        return tuple(canon_num(e) for e in x)
    return repr(x)


def canon_agent(pos, cost, fit):
    return (canon_num(pos), canon_num(cost), canon_num(fit))


def canon_result(res):
    """Full observable content of an OptimizationResult (positions, costs, fitness, order, rates)."""
    if res is None:
        return None
    ev = tuple(tuple(canon_agent(a.position, a.cost, a.fitness) for a in g.agents) for g in res.evolution)
    b = res.best_solution
    return (ev, canon_num(list(res.rates)), canon_agent(b.position, b.cost, b.fitness) if b is not None else None)


def h8(obj):
    return hashlib.blake2b(repr(obj).encode(), digest_size=8).hexdigest()


def state_hashes(ex):
    """state = (optimizer, cycle k, sorted multiset of (position, internal cost) of generation k)"""
    out = []
    for k, g in enumerate(ex.snaps):
        ms = sorted(repr((canon_num(p), canon_num(c))) for p, c, f in g)
        out.append(h8((ex.scn['opt'], ex.scn['proto'], ex.scn.get('minmax', 'min'), k, ms)))
    return out


def canon_state(o, depth=0):
    """Canonical form of an optimizer instance attribute (C08 layer 2)."""
    from pydantic import BaseModel
    if depth > 6:
        return '<deep>'
    if isinstance(o, (float, np.floating, int, np.integer, bool, np.bool_)):
        return canon_num(o)
    if o is None or isinstance(o, str):
        return o
    if isinstance(o, np.ndarray):
        return ('nd', canon_num(o.tolist()))
    if isinstance(o, (list, tuple)):
        return tuple(canon_state(e, depth + 1) for e in o)
    if isinstance(o, dict):
        return tuple(sorted((repr(k), canon_state(v, depth + 1)) for k, v in o.items()))
    if isinstance(o, (set, frozenset)):
        return tuple(sorted(repr(canon_state(e, depth + 1)) for e in o))
    if isinstance(o, BaseModel):
        d = dict(o.__dict__)
        if o.model_extra:
            d.update(o.model_extra)
        return (type(o).__name__, tuple(sorted((k, canon_state(v, depth + 1)) for k, v in d.items())))
    if hasattr(o, 'value') and type(o).__module__.endswith('enums'):
        return str(o)
    if hasattr(o, '__dict__'):
        return (type(o).__name__, tuple(sorted((k, canon_state(v, depth + 1)) for k, v in vars(o).items())))
    return repr(o)


def instance_state(opt, exclude=('_config', '_task', '_debug')):
    return {k: canon_state(v) for k, v in vars(opt).items() if k not in exclude}
